"""C04 — supercell / primitive cell re-tilings: frame typing of the lattice algebra,
rejection of cells that cannot be tiled (DESIGN §3 C04)."""

from __future__ import annotations

import ast
import re

import sympy as sp

from engine import core, frames
from engine.core import AnalysisError
from engine.frames import A, C, D, L, U

CELLS = "phonopy/structure/cells.py"
DFC = "phonopy/harmonic/dynmat_to_fc.py"

SMAT = (L("u", "+"), L("s", "-"))  # supercell matrix:  cell_s.T = cell_u.T @ S
PMAT = (L("s", "+"), L("p", "-"))  # primitive matrix:  cell_p.T = cell_s.T @ M

CELL_SIG = {"kw": {"cell": (L("*", "-"), C), "scaled_positions": (A, L("*", "+")), "positions": (A, C)}}
SIGS = {
    "PhonopyAtoms": CELL_SIG,
    "__init__": CELL_SIG,
    "get_reduced_bases": {"ret": (L("r", "-"), C)},
    # get_smallest_vectors(supercell_bases, supercell_pos, primitive_pos): vectors in supercell coordinates, multiplicities
    "get_smallest_vectors": {"pos": [(L("s", "-"), C), (A, L("s", "+")), (A, L("s", "+"))], "ret_tuple": [(U, L("s", "+")), None]},
}

# (file, qualname, seeds, parameter types)
SCOPE = [
    (CELLS, "Supercell._get_simple_supercell", {"self._supercell_matrix": SMAT}, {}),
    (CELLS, "Supercell._create_supercell", {"self._supercell_matrix": SMAT}, {}),
    (CELLS, "Primitive._map_atomic_indices", {"self._primitive_matrix": PMAT}, {"s_pos_orig": (A, L("s", "+"))}),
    (CELLS, "Primitive._get_atomic_permutations", {}, {}),
    (CELLS, "Primitive._get_smallest_vectors", {"self._primitive_matrix": PMAT, "self._cell": (L("p", "-"), C)}, {}),
    (CELLS, "TrimmedCell._run", {}, {"relative_axes": (L("*", "+"), L("t", "-"))}),
    (CELLS, "TrimmedCell._extract", {}, {}),
    (CELLS, "ShortestPairs._transform_cell_basis", {"self._supercell_bases": (L("s", "-"), C), "self._supercell_pos": (A, L("s", "+")), "self._primitive_pos": (A, L("s", "+"))}, {}),
    (CELLS, "ShortestPairs._run_dense", {}, {}),
    (CELLS, "ShortestPairs._run_sparse", {}, {}),
    (CELLS, "get_supercell", {}, {}),
    (CELLS, "get_primitive", {}, {}),
    (CELLS, "convert_to_phonopy_primitive", {}, {}),
    (CELLS, "get_reduced_bases", {}, {}),
    (CELLS, "compute_permutation_for_rotation", {}, {"lattice": (C, L("*", "-")), "positions_a": (A, L("*", "+")), "positions_b": (A, L("*", "+"))}),
    (DFC, "get_commensurate_points", {}, {"supercell_matrix": SMAT}),
    (DFC, "get_commensurate_points_in_integers", {}, {"supercell_matrix": SMAT}),
]


def run(rep: core.Report):
    rep.rule("R04a", "frame typing: every contraction in the supercell/primitive construction pairs a component index with a basis index of the same lattice (or Cartesian with Cartesian); cell= receives (L-, Cart), scaled_positions= receives (atom, L+)", 12)
    rep.rule("R04b", "rejection: the atom count after trimming is compared with |det| before the maps are stored, and the failing branch stores no maps / raises", 4)
    rep.rule("R04c", "the Smith-normal-form matrices are used only through integer-rounded inverses with a unimodularity assertion", 2)
    typed_total = 0
    for rel, qn, seeds, params in SCOPE:
        try:
            fn = core.find_def(rel, qn)
        except AnalysisError:
            if qn in ("TrimmedCell._extract", "TrimmedCell._run", "get_reduced_bases", "convert_to_phonopy_primitive"):
                continue
            raise
        ty = frames.Typer(fn, seeds=seeds, params=params, call_sigs=SIGS, where=f"{rel}::{qn}")
        problems = ty.run()
        typed_total += ty.n_typed
        if not problems:
            rep.instance("R04a", rel, qn, f"{ty.n_typed} contractions/arguments typed consistently", True, nontrivial=ty.n_typed > 0, line=fn.lineno,
                         sample={"function": qn, "typed": ty.n_typed} if ty.n_typed else None)
        for p in problems:
            rep.instance("R04a", rel, qn, core.norm(core.src(p.node), 90), False,
                         f"{p.message}: the product mixes up a matrix and its transpose (or two different lattices); for a non-symmetric matrix the cell/positions built here are wrong", line=getattr(p.node, "lineno", fn.lineno))
    if typed_total < 10:
        raise AnalysisError(f"R04a: only {typed_total} contractions could be typed; the seeds no longer match the code")
    _r04b(rep)
    _r04c(rep)
    _r04d(rep)


def _r04b(rep):
    fn = core.find_def(CELLS, "Supercell._create_supercell")
    ifs = [n for n in ast.walk(fn) if isinstance(n, ast.If) and "determinant(self._supercell_matrix)" in core.src(n.test)]
    ok = False
    if ifs:
        t = ifs[0]
        test = core.src(t.test)
        fail, good = (t.body, t.orelse) if "!=" in test else (t.orelse, t.body)
        stores_fail = [s for b in fail for s in ast.walk(b) if isinstance(s, ast.Assign) and core.src(s.targets[0]).startswith("self._") and "map" in core.src(s.targets[0])]
        stores_good = [s for b in good for s in ast.walk(b) if isinstance(s, ast.Assign) and core.src(s.targets[0]).startswith("self._") and "map" in core.src(s.targets[0])]
        ok = not stores_fail and len(stores_good) >= 3
    rep.instance("R04b", CELLS, "Supercell._create_supercell", core.norm(core.src(ifs[0].test), 80) if ifs else "<no determinant test>", ok,
                 "the supercell's atom count is not compared with det(S) before the index maps are stored (or the failing branch stores maps)", line=fn.lineno)
    # meaning of the test, whatever its form: it holds exactly when len(trimmed cell) == len(unit cell) * det(S)
    import sympy as sp
    from engine import symalg

    ok_sem, shown = False, "<no determinant test>"
    if ifs and isinstance(ifs[0].test, ast.Compare) and len(ifs[0].test.ops) == 1 and isinstance(ifs[0].test.ops[0], (ast.Eq, ast.NotEq)):
        tr = symalg.OpenPyTranslator(where="Supercell._create_supercell")
        env = tr.summary(fn)
        lhs, rhs = tr.expr(ifs[0].test.left, env), tr.expr(ifs[0].test.comparators[0], env)
        diff = lhs - rhs
        lens = [x for x in diff.atoms(sp.Function) if x.func.__name__ == "len"]
        S = [x for x in lens if "_trim_cell" in str(x)]
        U = [x for x in lens if str(x) == "len(unitcell)"]
        Dt = [x for x in diff.atoms(sp.Function) if x.func.__name__ == "determinant" and "supercell_matrix" in str(x)]
        shown = core.norm(core.src(ifs[0].test), 80)
        if S and U and Dt:
            u, d = sp.Symbol("u", positive=True, integer=True), sp.Symbol("d", positive=True, integer=True)
            eq = sp.simplify(diff.subs(S[0], u * d).subs(U[0], u).subs(Dt[0], d))
            ne = sp.simplify(diff.subs(S[0], u * (d + 1)).subs(U[0], u).subs(Dt[0], d))
            ok_sem = eq == 0 and ne != 0
    rep.instance("R04b", CELLS, "Supercell._create_supercell", f"{shown}  <=>  len(trimmed cell) == len(unit cell) * det(S)", ok_sem,
                 "the rejection test does not compare the atom count of the trimmed cell with len(unitcell) * det(supercell matrix)", line=fn.lineno)
    pf = core.find_def(CELLS, "Primitive._create_primitive_cell")
    # the rejection compares a per-atom species label of the supercell with the same label gathered through the
    # mapping table; the label must be the full symbol (index-decorated symbols such as Cr1/Cr2 share one atomic number)
    defs = {core.src(s.targets[0]): s.value for s in ast.walk(pf) if isinstance(s, ast.Assign) and len(s.targets) == 1 and isinstance(s.targets[0], ast.Name)}
    verdict, shown = None, "<no rejecting comparison through mapping_table>"
    # by role: the table is the third result of _trim_cell, the supercell the first parameter
    mt_name = next((core.src(st.targets[0].elts[2]) for st in ast.walk(pf) if isinstance(st, ast.Assign) and isinstance(st.value, ast.Call) and core.src(st.value.func) == "_trim_cell" and isinstance(st.targets[0], ast.Tuple) and len(st.targets[0].elts) == 3), "mapping_table")
    sc_name = pf.args.args[1].arg if len(pf.args.args) > 1 else "supercell"
    for n in ast.walk(pf):
        if not (isinstance(n, ast.If) and any(isinstance(b, ast.Raise) for st in n.body for b in ast.walk(st))):
            continue
        exprs = [n.test] + [defs[x.id] for x in ast.walk(n.test) if isinstance(x, ast.Name) and x.id in defs]
        names = {x.id for e in exprs for x in ast.walk(e) if isinstance(x, ast.Name)}
        attrs = {x.attr for e in exprs for x in ast.walk(e) if isinstance(x, ast.Attribute) and core.src(x.value) == sc_name}
        if mt_name not in names or not attrs:
            continue
        shown = core.norm(core.src(n.test), 70) + f" [supercell.{'/'.join(sorted(attrs))} through mapping_table]"
        verdict = "symbols" in attrs
        if verdict:
            break
    if verdict is None:
        rep.instance("R04b", CELLS, "Primitive._create_primitive_cell", shown, False, "a primitive cell whose atoms do not map onto the same species is no longer rejected", line=pf.lineno)
    else:
        rep.instance("R04b", CELLS, "Primitive._create_primitive_cell", shown, verdict, "the species check compares atomic numbers / masses only: atoms with index-decorated symbols (e.g. Cr1, Cr2) that map onto each other are no longer rejected", line=pf.lineno)
    mf = core.find_def(CELLS, "Primitive._map_atomic_indices")
    # inside the per-atom loop, a count of matches is required to be exactly one (assert, or if-raise)
    uniq = []
    for lp in [n for n in ast.walk(mf) if isinstance(n, ast.For)]:
        local = {t.id for st in ast.walk(lp) if isinstance(st, ast.Assign) for t in st.targets if isinstance(t, ast.Name)}
        for n in ast.walk(lp):
            test = n.test if isinstance(n, (ast.Assert, ast.If)) else None
            if test is None or (isinstance(n, ast.If) and not any(isinstance(x, ast.Raise) for st in n.body for x in ast.walk(st))):
                continue
            for c in [x for x in ast.walk(test) if isinstance(x, ast.Compare) and len(x.ops) == 1]:
                sides = [c.left, c.comparators[0]]
                one = [x for x in sides if isinstance(x, ast.Constant) and x.value == 1]
                cnt = [x for x in sides if not isinstance(x, ast.Constant) and {y.id for y in ast.walk(x) if isinstance(y, ast.Name)} & local and ("len(" in core.src(x) or ".size" in core.src(x) or "count" in core.src(x) or "sum" in core.src(x))]
                want = ast.Eq if isinstance(n, ast.Assert) else ast.NotEq
                if one and cnt and isinstance(c.ops[0], want):
                    uniq.append(n)
    if not uniq:
        # vectorised spelling: assert (count_per_atom == 1).all() with the count a sum / count_nonzero along an axis
        for n in ast.walk(mf):
            test = n.test if isinstance(n, (ast.Assert, ast.If)) else None
            if test is None or (isinstance(n, ast.If) and not any(isinstance(x, ast.Raise) for st in n.body for x in ast.walk(st))):
                continue
            for c in [x for x in ast.walk(test) if isinstance(x, ast.Compare) and len(x.ops) == 1]:
                sides = [c.left, c.comparators[0]]
                one = [x for x in sides if isinstance(x, ast.Constant) and x.value == 1]
                cnt = [x for x in sides if not isinstance(x, ast.Constant) and ("sum(" in core.src(x) or "count_nonzero" in core.src(x)) and "axis" in core.src(x)]
                want = ast.Eq if isinstance(n, ast.Assert) else ast.NotEq
                if one and cnt and isinstance(c.ops[0], want) and (".all()" in core.src(test) or ".any()" in core.src(test)):
                    uniq.append(n)
    rep.instance("R04b", CELLS, "Primitive._map_atomic_indices", core.norm(core.src(uniq[0]), 60) if uniq else "<no uniqueness test>", bool(uniq), "a supercell atom matching zero or several primitive atoms is no longer rejected", line=mf.lineno)
    tf = core.find_def(CELLS, "_trim_cell")
    t = core.src(tf)
    rep.instance("R04b", CELLS, "_trim_cell", "trimmed cell reports the mapping table used for the atom-count check", "mapping_table" in t, "mapping table vanished", line=tf.lineno, nontrivial=False)


def _r04d(rep):
    """Integrality typing of the atom-count test of TrimmedCell._run.  det(relative_axes) is the volume ratio 1/k
    of the trimmed cell (k the integer number of lattice points per trimmed cell, assumption printed);
    INT: integer-valued, IDX: the integer k, DET: 1/k, FRAC: possibly non-integer.  Rounding a FRAC value
    inside the acceptance test makes nearly-tiling cells pass."""
    rep.rule("R04d", "rejection in TrimmedCell._run: the atom-count test that admits a trimmed cell never rounds a possibly fractional product (rounding is applied to (number of trimmed atoms) x (integer index), which is an integer)", 2)
    fn = core.find_def(CELLS, "TrimmedCell._run")
    env = {}
    lossy = []

    def ty(e):
        if isinstance(e, ast.Constant) and isinstance(e.value, (int, float)):
            return "INT" if float(e.value).is_integer() else "FRAC"
        if isinstance(e, ast.Name):
            return env.get(e.id)
        if isinstance(e, ast.Call):
            f = core.src(e.func)
            if f == "len":
                return "INT"
            if f in ("np.linalg.det", "determinant") and e.args and "relative_axes" in core.src(e.args[0]):
                return "DET"
            if f in ("abs", "np.abs", "float") and e.args:
                return ty(e.args[0])
            if f in ("np.rint", "round", "np.round", "int", "np.floor", "np.ceil") and e.args:
                t = ty(e.args[0])
                if t == "FRAC" or t == "DET":
                    if f != "int" or not (isinstance(e.args[0], ast.Call) and core.src(e.args[0].func) in ("np.rint", "round", "np.round")):
                        lossy.append(e)
                    return "INT"
                return "INT" if t in ("INT", "IDX") else None
            return None
        if isinstance(e, ast.BinOp):
            a, b = ty(e.left), ty(e.right)
            if a is None or b is None:
                return None
            if isinstance(e.op, ast.Mult):
                pair = {a, b}
                if pair <= {"INT", "IDX"}:
                    return "INT"
                if pair == {"IDX", "DET"}:
                    return "INT"
                return "FRAC"
            if isinstance(e.op, (ast.Div,)):
                if a == "INT" and isinstance(e.left, ast.Constant) and float(e.left.value) == 1.0 and b == "DET":
                    return "IDX"
                if a == "INT" and b == "DET":
                    return "INT"
                return "FRAC"
            if isinstance(e.op, (ast.Add, ast.Sub)):
                return "INT" if {a, b} <= {"INT", "IDX"} else "FRAC"
            return None
        return None

    for st in fn.body:
        if isinstance(st, ast.Assign) and isinstance(st.targets[0], ast.Name):
            t = ty(st.value)
            if t:
                env[st.targets[0].id] = t
    gate = [n for n in fn.body if isinstance(n, ast.If) and any(isinstance(x, ast.Raise) for arm in (n.body, n.orelse) for y in arm for x in ast.walk(y)) and any(isinstance(x, ast.Call) and core.src(x.func) == "super().__init__" for arm in (n.body, n.orelse) for y in arm for x in ast.walk(y))]
    if len(gate) != 1:
        raise AnalysisError("R04d: the accept/raise gate of TrimmedCell._run vanished")
    n0 = len(lossy)
    for c in [x for x in ast.walk(gate[0].test) if isinstance(x, ast.Compare)]:
        ty(c.left)
        for k in c.comparators:
            ty(k)
    names = {x.id for x in ast.walk(gate[0].test) if isinstance(x, ast.Name)}
    bad = [e for e in lossy if any(e in set(ast.walk(gate[0].test)) for _ in [0])] + [e for e in lossy[:n0] if any(isinstance(st, ast.Assign) and isinstance(st.targets[0], ast.Name) and st.targets[0].id in names and e in set(ast.walk(st.value)) for st in fn.body)]
    counts = {core.src(x) for x in ast.walk(gate[0].test) if isinstance(x, ast.Call) and core.src(x.func) == "len"} | {core.src(x) for st in fn.body if isinstance(st, ast.Assign) and isinstance(st.targets[0], ast.Name) and st.targets[0].id in names for x in ast.walk(st.value) if isinstance(x, ast.Call) and core.src(x.func) == "len"}
    rep.instance("R04d", CELLS, "TrimmedCell._run", f"gate '{core.norm(core.src(gate[0].test), 70)}' compares {sorted(counts)}", len(counts) >= 2, "the gate no longer compares the number of atoms of the input cell with the number of trimmed atoms", line=gate[0].lineno)
    rep.instance("R04d", CELLS, "TrimmedCell._run", "no rounding of a possibly fractional product in the gate", not bad,
                 (f"'{core.norm(core.src(bad[0]), 60)}' rounds (atoms of the input cell) x det(relative_axes), which is not an integer when the cell cannot be tiled: a cell with an unpaired atom (3 atoms under I-centring: 3 x 1/2 = 1.5 -> 2) is admitted and a primitive cell with len(cell) != N len(primitive) is built" if bad else ""), line=(bad[0].lineno if bad else gate[0].lineno))
    rep.assume("R04d: 1/det(relative_axes) is an integer (the number of lattice points of the input cell per trimmed cell)")


def _r04c(rep):
    fn = core.find_def(CELLS, "Supercell._get_simple_supercell")
    from engine import symalg

    tr = symalg.OpenPyTranslator(where="Supercell._get_simple_supercell")
    env = tr.summary(fn)
    found = None
    for a in [x for x in ast.walk(fn) if isinstance(x, ast.Assert)] + [x for x in ast.walk(fn) if isinstance(x, ast.If) and any(isinstance(y, ast.Raise) for y in ast.walk(x))]:
        for c in [x for x in ast.walk(a.test) if isinstance(x, ast.Compare) and len(x.ops) == 1]:
            sides = [c.left, c.comparators[0]]
            if any(isinstance(x, ast.Constant) and x.value == 1 for x in sides) and any("determinant" in core.src(x) or "det(" in core.src(x) for x in sides):
                detside = [x for x in sides if not isinstance(x, ast.Constant)][0]
                found = (a, str(tr.expr(detside, env)))
    ok2 = found is not None
    ok1 = ok2 and "np.rint(np.linalg.inv(P))" in found[1] and ("int" in found[1].split("np.rint")[0] + found[1].split("np.linalg.inv(P))")[-1])
    rep.instance("R04c", CELLS, "Supercell._get_simple_supercell", "the matrix whose determinant is asserted is rint(inv(P)) cast to integers", bool(ok1), f"the asserted matrix is {found[1] if found else '<none>'}, not the integer-rounded inverse of the SNF transformation P", line=fn.lineno)
    rep.instance("R04c", CELLS, "Supercell._get_simple_supercell", "determinant of the inverse transformation is required to be 1", ok2, "the unimodularity assertion on the SNF transformation vanished", line=fn.lineno)



def _r04g(rep):
    """Old-style supercell construction: the trimming frame re-expresses the supercell matrix in the surrounding frame."""
    from engine import symnp

    rep.rule("R04g", "old-style supercell: the cell handed to the trimming step spans diag(frame)^T L and the relative axes T satisfy diag(frame) . T = supercell matrix (row i of the matrix divided by frame[i]), so that the trimmed lattice T^T diag(frame) L is S^T L; evaluated symbolically on 3x3 entries with numpy's broadcasting", 2)
    fn = core.find_def(CELLS, "Supercell._create_supercell")
    # roles: the matrix (bound to self._supercell_matrix), the frame (second argument of _get_simple_supercell), the
    # relative axes (first argument of _trim_cell)
    mat = [st.targets[0].id for st in fn.body if isinstance(st, ast.Assign) and isinstance(st.targets[0], ast.Name) and core.src(st.value) == "self._supercell_matrix"]
    trims = [c for c in ast.walk(fn) if isinstance(c, ast.Call) and core.src(c.func).endswith("_trim_cell") and c.args and isinstance(c.args[0], ast.Name)]
    simple = [c for c in ast.walk(fn) if isinstance(c, ast.Call) and core.src(c.func).endswith("_get_simple_supercell") and len(c.args) >= 2 and isinstance(c.args[1], ast.Name)]
    arms = [st for st in fn.body if isinstance(st, ast.If) and "_is_old_style" in core.src(st.test)]
    if len(mat) != 1 or len(trims) != 1 or len(simple) != 1 or len(arms) != 1:
        raise AnalysisError("R04g: Supercell._create_supercell lost its matrix / frame / trimming roles")
    mat, trim, frame = mat[0], trims[0].args[0].id, simple[0].args[1].id
    old_arm = arms[0].body if core.src(arms[0].test).replace(" ", "") == "self._is_old_style" else arms[0].orelse
    M, F = symnp.matrix("m", 3, 3), symnp.vector("f", 3)
    env = {mat: M}

    def hook(call, ev):
        if core.src(call.func).endswith("_get_surrounding_frame"):
            return F
        return None

    evl = symnp.Evaluator(env, where=f"{CELLS}::Supercell._create_supercell", call_hook=hook)
    for st in old_arm:
        if isinstance(st, ast.Assign) and len(st.targets) == 1 and isinstance(st.targets[0], ast.Name):
            if isinstance(st.value, ast.Constant) and st.value.value is None:
                continue
            evl.env[st.targets[0].id] = evl.ev(st.value)
    if trim not in evl.env or frame not in evl.env:
        raise AnalysisError(f"R04g: the old-style arm no longer binds '{trim}' and '{frame}'")
    T, Fv = evl.env[trim], evl.env[frame]
    rep.instance("R04g", CELLS, "Supercell._create_supercell", f"{frame} = surrounding frame of {mat}", Fv is F, "the frame handed to the simple supercell is not the surrounding frame of the supercell matrix", line=arms[0].lineno)
    ok = symnp.shape(T) == (3, 3) and all(sp.simplify(T[i][j] * F[i] - M[i][j]) == 0 for i in range(3) for j in range(3))
    bad = [(i, j, str(T[i][j])) for i in range(3) for j in range(3) if symnp.shape(T) == (3, 3) and sp.simplify(T[i][j] * F[i] - M[i][j]) != 0]
    rep.instance("R04g", CELLS, "Supercell._create_supercell", f"{trim}[i][j] = {mat}[i][j] / {frame}[i] for all 9 entries", ok,
                 f"entry {bad[0][:2] if bad else ''} of the relative axes is {bad[0][2] if bad else '?'}: the rows of the supercell matrix are not divided by the frame length of the same row, so the trimmed lattice is D S D^-1 applied to L instead of S^T L — same determinant (the atom-count checks pass), different lattice, for any non-diagonal matrix whose rows have different frame lengths", line=arms[0].lineno)



def _r04j(rep):
    """Index-domain typing of the supercell <-> unit-cell maps stored by Supercell._create_supercell."""
    rep.rule("R04j", "index-domain typing of the stored maps (U unit-cell atoms, R atoms of the untrimmed surrounding cell, S supercell atoms, S0 first image of a unit-cell atom in the supercell): the surrounding cell repeats every per-atom attribute k times with one k, its atom map is repeat(arange(len(unit cell)), k): R->U; trimming returns S->R; A[B] composes X->Y with Z->X; an index is turned into its block number only by the block length of its own domain; s2u_map is S->S0, u2s_map U->S0, u2u_map S0->U", 4)
    simple = core.find_def(CELLS, "Supercell._get_simple_supercell")
    create = core.find_def(CELLS, "Supercell._create_supercell")
    upar = create.args.args[1].arg  # the unit cell
    spar = simple.args.args[1].arg

    def assigned(fn):
        out = {}
        for st in ast.walk(fn):
            if isinstance(st, ast.Assign) and len(st.targets) == 1 and isinstance(st.targets[0], ast.Name):
                out.setdefault(st.targets[0].id, []).append(st.value)
        return out

    sa = assigned(simple)

    def repeat_counts(e, seen=()):
        """source texts of the k of every 'repeat each element k times' construct that e is built from"""
        out = set()
        if isinstance(e, ast.Name) and e.id in sa and e.id not in seen:
            for v in sa[e.id]:
                out |= repeat_counts(v, seen + (e.id,))
            return out
        for x in ast.walk(e):
            if isinstance(x, ast.Call) and core.src(x.func) == "np.repeat" and len(x.args) >= 2:
                out.add(core.src(x.args[1]))
            if isinstance(x, ast.ListComp) and len(x.generators) == 2 and isinstance(x.generators[1].iter, ast.Call) and core.src(x.generators[1].iter.func) == "range" and len(x.generators[1].iter.args) == 1 and core.src(x.elt) == core.src(x.generators[0].target):
                out.add(core.src(x.generators[1].iter.args[0]))
            if isinstance(x, ast.Name) and x is not e and x.id in sa and x.id not in seen:
                for v in sa[x.id]:
                    out |= repeat_counts(v, seen + (x.id,))
        return out

    ctor = [c for c in ast.walk(simple) if isinstance(c, ast.Call) and core.src(c.func) == "PhonopyAtoms"]
    if len(ctor) != 1:
        raise AnalysisError("R04j: _get_simple_supercell no longer builds one PhonopyAtoms")
    per_atom = {k.arg: repeat_counts(k.value) for k in ctor[0].keywords if k.arg in ("symbols", "masses", "magnetic_moments", "scaled_positions", "numbers")}
    ks = set().union(*per_atom.values()) if per_atom else set()
    one_k = len(ks) == 1 and all(v for v in per_atom.values())
    rep.instance("R04j", CELLS, "Supercell._get_simple_supercell", f"every per-atom attribute of the surrounding cell repeats each unit-cell entry k times: {{{', '.join(f'{a}: {sorted(v)}' for a, v in sorted(per_atom.items()))}}}", one_k,
                 f"the per-atom attributes of the surrounding cell are repeated with different counts {sorted(ks)} (or not by 'repeat each'): symbols, masses, moments and positions of an atom no longer belong to the same unit-cell atom", line=simple.lineno)
    K = sorted(ks)[0] if ks else None

    def is_len_of_unitcell(e, fn_assigned, par, depth=0):
        while isinstance(e, ast.Name) and e.id in fn_assigned and len(fn_assigned[e.id]) == 1 and depth < 6:
            e = fn_assigned[e.id][0]
            depth += 1
        if isinstance(e, ast.Call) and core.src(e.func) == "len" and e.args:
            x = e.args[0]
            while isinstance(x, ast.Name) and x.id in fn_assigned and len(fn_assigned[x.id]) == 1 and depth < 12:
                x = fn_assigned[x.id][0]
                depth += 1
            root = x
            while isinstance(root, ast.Attribute):
                root = root.value
            return isinstance(root, ast.Name) and root.id == par
        return False

    def type_simple_map(e):
        e = core.resolve_name(simple, e)
        if isinstance(e, ast.Call) and core.src(e.func) == "np.repeat" and len(e.args) >= 2 and core.src(e.args[1]) == K:
            a0 = core.resolve_name(simple, e.args[0])
            if isinstance(a0, ast.Call) and core.src(a0.func) == "np.arange" and len(a0.args) == 1 and is_len_of_unitcell(a0.args[0], sa, spar):
                return ("map", "R", "U")
        return None

    rets = [r.value for r in ast.walk(simple) if isinstance(r, ast.Return) and r.value is not None]
    if len(rets) != 1:
        raise AnalysisError("R04j: _get_simple_supercell has not exactly one return")
    r0 = core.resolve_name(simple, rets[0])
    simple_types = [("cell", "R")] + [type_simple_map(x) for x in r0.elts[1:]] if isinstance(r0, ast.Tuple) else [("cell", "R")]

    # _trim_cell returns (trimmed cell, indices of the kept atoms in the input cell, table)
    trim = core.find_def(CELLS, "_trim_cell")
    tr = [r.value for r in ast.walk(trim) if isinstance(r, ast.Return) and isinstance(r.value, ast.Tuple)]
    ok_trim = len(tr) == 1 and len(tr[0].elts) == 3 and core.src(tr[0].elts[1]).endswith(".extracted_atoms")
    appended = []
    for fn_ in ast.walk(core.find_def(CELLS, "TrimmedCell")):
        if isinstance(fn_, ast.FunctionDef):
            for c in ast.walk(fn_):
                if isinstance(c, ast.Call) and isinstance(c.func, ast.Attribute) and c.func.attr == "append" and core.src(c.func.value) == "extracted_atoms" and c.args:
                    idx_ok = any(isinstance(lp, ast.For) and isinstance(lp.iter, ast.Call) and core.src(lp.iter.func) == "enumerate" and isinstance(lp.target, ast.Tuple) and core.src(lp.target.elts[0]) == core.src(c.args[0]) and any(y is c for y in ast.walk(lp)) for lp in ast.walk(fn_))
                    appended.append(idx_ok)
    if not ok_trim or not appended or not all(appended):
        raise AnalysisError("R04j: _trim_cell / TrimmedCell no longer return the indices of the kept atoms in the input cell (extracted_atoms.append(index of the enumerate loop))")

    env = {upar: ("cell", "U")}

    def ty(e):
        t_ = ty0(e)
        if t_ is None:
            for ch in ast.iter_child_nodes(e):  # an ill-typed part makes the whole ill-typed
                if isinstance(ch, ast.expr):
                    c_ = ty(ch)
                    if c_ and c_[0] == "ill":
                        return c_
            if isinstance(e, ast.DictComp):
                c_ = ty(e.generators[0].iter)
                if c_ and c_[0] == "ill":
                    return c_
        return t_

    def ty0(e):
        if isinstance(e, ast.Name):
            return env.get(e.id)
        if isinstance(e, ast.Attribute):
            return env.get(core.src(e))
        if isinstance(e, ast.Call):
            f = core.src(e.func)
            if f == "len" and e.args:
                t = ty(e.args[0])
                return ("count", t[1]) if t and t[0] == "cell" else None
            if f in ("np.array", "np.asarray", "np.ascontiguousarray", "int", "list") and e.args:
                return ty(e.args[0])
            if f == "np.arange" and len(e.args) == 1:
                t = ty(e.args[0])
                return ("map", t[1], t[1]) if t and t[0] == "count" else None
            return None
        if isinstance(e, ast.BinOp):
            a, b = ty(e.left), ty(e.right)
            if isinstance(e.op, ast.FloorDiv):
                if a and b and a[0] == "count" and b == ("count", "U"):
                    return ("block", a[1])
                if a and b and a[0] == "count" and b[0] == "count":
                    return ("ill", f"'{core.src(e)}' divides the number of {a[1]} atoms by the number of {b[1]} atoms: not a block length")
                if a and a[0] == "map" and b and b[0] == "block":
                    if a[2] == b[1]:
                        return ("map", a[1], "U")
                    return ("ill", f"an index of domain {a[2]} is divided by the block length of domain {b[1]} ('{core.src(e)}'): the blocks of {a[2]} have another length")
                return None
            if isinstance(e.op, ast.Mult):
                for x, y in ((a, b), (b, a)):
                    if x and x[0] == "ill":
                        return x
                    if y and y[0] == "ill":
                        return y
                    if x and x[0] == "map" and x[2] == "U" and y == ("block", "S"):
                        return ("map", x[1], "S0")
                return None
            return None
        if isinstance(e, ast.Subscript):
            a, b = ty(e.value), ty(e.slice)
            if a and b and a[0] == "map" and b[0] == "map":
                if b[2] == a[1]:
                    return ("map", b[1], a[2])
                return ("ill", f"a {a[1]}->{a[2]} map is indexed by the values of a {b[1]}->{b[2]} map ('{core.src(e)}')")
            return None
        if isinstance(e, ast.DictComp) and len(e.generators) == 1:
            g = e.generators[0]
            if isinstance(g.iter, ast.Call) and core.src(g.iter.func) == "enumerate" and g.iter.args and isinstance(g.target, ast.Tuple) and len(g.target.elts) == 2:
                m = ty(g.iter.args[0])
                if m and m[0] == "map" and core.src(e.key) == core.src(g.target.elts[1]) and core.src(e.value) == core.src(g.target.elts[0]):
                    return ("map", m[2], m[1])
            return None
        return None

    stored = {}
    # statements in source order (the typing is flow-insensitive inside the function but needs definitions first)
    for st in sorted([x for x in ast.walk(create) if isinstance(x, ast.Assign) and len(x.targets) == 1], key=lambda x: x.lineno):
        t, v = st.targets[0], st.value
        if isinstance(v, ast.Call) and core.src(v.func) == "self._get_simple_supercell":
            names = t.elts if isinstance(t, ast.Tuple) else [t]
            for nm, tt in zip(names, simple_types):
                env[core.src(nm)] = tt
            continue
        if isinstance(v, ast.Call) and core.src(v.func) == "_trim_cell" and isinstance(t, ast.Tuple) and len(t.elts) == 3 and len(v.args) >= 2:
            src_cell = ty(v.args[1])
            env[core.src(t.elts[0])] = ("cell", "S")
            env[core.src(t.elts[1])] = ("map", "S", src_cell[1]) if src_cell and src_cell[0] == "cell" else None
            continue
        if isinstance(t, (ast.Name, ast.Attribute)):
            tt = ty(v)
            if isinstance(t, ast.Attribute) and core.src(t) in ("self._s2u_map", "self._u2s_map", "self._u2u_map"):
                stored[core.src(t)] = (st, tt)
                env[core.src(t)] = tt
            elif core.src(t) not in env or tt is not None:
                env[core.src(t)] = tt
    want = {"self._s2u_map": ("map", "S", "S0"), "self._u2s_map": ("map", "U", "S0"), "self._u2u_map": ("map", "S0", "U")}
    for nm, w in want.items():
        if nm not in stored:
            raise AnalysisError(f"R04j: _create_supercell no longer stores {nm}")
        st, tt = stored[nm]
        if tt is None:
            raise AnalysisError(f"R04j: cannot type '{core.norm(core.src(st), 90)}' (unit cell U, surrounding cell R, supercell S)")
        shown = f"{tt[1]}->{tt[2]}" if tt[0] == "map" else tt[1]
        rep.instance("R04j", CELLS, "Supercell._create_supercell", f"{core.norm(core.src(st), 90)} : {w[1]}->{w[2]}", tt == w,
                     f"'{core.norm(core.src(st), 100)}' is typed {shown}, not {w[1]}->{w[2]} (U unit-cell atom, R atom of the untrimmed surrounding cell, S supercell atom, S0 first image in the supercell): whenever the surrounding frame holds more lattice points than |det S| (non-diagonal matrices in the classic construction) the map names wrong or non-existent unit-cell representatives", line=st.lineno)


def _r04l(rep):
    """Cells built from cells carry the full species labels."""
    rep.rule("R04l", "every cell that the structure modules build from another cell (PhonopyAtoms.copy, the trimmed cell, supercell, primitive cell) receives the species as the full symbols (index-decorated labels such as Cl1 keep their index: symbols=...), not as the atomic numbers of the public getter, which drops the index (n % 1000): the images of a unit-cell atom would otherwise carry another species label than the atom they map to", 5)
    ATOMS_ = "phonopy/structure/atoms.py"
    n = 0
    for rel in (ATOMS_, CELLS):
        tree = core.parse(rel)
        for c in ast.walk(tree):
            if not (isinstance(c, ast.Call) and (core.src(c.func) in ("PhonopyAtoms", "super().__init__", "self._set_parameters") or core.src(c.func).endswith("PhonopyAtoms"))):
                continue
            kws = {k.arg: k.value for k in c.keywords if k.arg}
            if not ({"symbols", "numbers"} & set(kws)):
                continue
            fn = core.enclosing_function(c)
            qn = core.qualname_of(fn) if fn is not None else "<module>"
            num = kws.get("numbers")
            lossy = isinstance(num, ast.Attribute) and num.attr == "numbers" and not (isinstance(kws.get("symbols"), ast.AST) and not (isinstance(kws["symbols"], ast.Constant) and kws["symbols"].value is None))
            deprecated = rel == ATOMS_ and qn.endswith("__init__") and isinstance(num, ast.Attribute) and core.src(num.value) == "atoms"
            n += 1
            rep.instance("R04l", rel, qn, core.norm(core.src(c), 90) + ("  [deprecated atoms= path: a foreign atoms object has no indexed symbols]" if deprecated else ""), not lossy or deprecated,
                         f"the new cell receives 'numbers={core.src(num) if num is not None else ''}': the public numbers getter removes the symbol index, so Cl1 becomes Cl in the copy (masses and positions stay): the supercell / primitive atoms no longer have the species of the unit-cell atoms they map to", line=c.lineno, nontrivial=not deprecated)
    if n < 5:
        raise AnalysisError(f"R04l: only {n} cell constructions with species found in atoms.py / cells.py")


def _r04m(rep):
    """p2p_map: from the supercell index of a primitive atom to its index in the primitive cell."""
    from rules.c02 import _maptype

    rep.rule("R04m", "Primitive._map_atomic_indices: p2p_map is the inverse of p2s_map (index-map typing R->P: {p2s_map[i]: i}); numbering the distinct values of s2p_map in ascending order gives the same dictionary only while p2s_map is ascending, which positions_to_reorder does not keep -- supercell atoms are then assigned to another primitive atom (species, mass, force-constant block)", 1)
    fn = core.find_def(CELLS, "Primitive._map_atomic_indices")
    rets = [r.value for r in ast.walk(fn) if isinstance(r, ast.Return) and isinstance(r.value, ast.Tuple) and len(r.value.elts) == 2]
    if len(rets) != 1:
        raise AnalysisError("R04m: _map_atomic_indices no longer returns (s2p_map, p2p_map)")
    env = {}
    for st in ast.walk(fn):
        if isinstance(st, ast.Assign) and len(st.targets) == 1 and isinstance(st.targets[0], ast.Name):
            env.setdefault(st.targets[0].id, st.value)
    # the s2p_map built here is a S->R map by construction (elements of p2s_map); the typing of p2p_map starts there
    env2 = dict(env)
    s2p_name = rets[0].elts[0].id if isinstance(rets[0].elts[0], ast.Name) else None
    if s2p_name:
        env2[s2p_name] = ("S", "R")
    v = core.resolve_name(fn, rets[0].elts[1])
    if isinstance(v, ast.Call) and core.src(v.func) == "dict" and v.args and isinstance(v.args[0], ast.ListComp) and isinstance(v.args[0].elt, ast.Tuple) and len(v.args[0].elt.elts) == 2:
        lc = v.args[0]
        v = ast.DictComp(key=lc.elt.elts[0], value=lc.elt.elts[1], generators=lc.generators)
    got = _maptype(v, env2, CELLS)
    if got is None:
        raise AnalysisError(f"R04m: cannot type p2p_map '{core.norm(core.src(v), 70)}'")
    rep.instance("R04m", CELLS, "Primitive._map_atomic_indices", f"p2p_map = {core.norm(core.src(v), 70)} : {got[0]}->{got[1]}", tuple(got) == ("R", "P"),
                 f"p2p_map is typed {got[0]}->{got[1]}, not R->P (supercell index of a primitive atom -> its index in the primitive cell)", line=rets[0].lineno)


def _r04k(rep):
    """The pure translations are differences inside one sublattice: reference atom and images of the same primitive atom."""
    rep.rule("R04k", "pure translations of the primitive cell: the vectors handed to the permutation search are positions of the images of ONE primitive atom (selected by s2p_map == r) minus the position of an atom of that same sublattice (the representative r itself, or one of the selected images); a reference from another sublattice gives offsets between sublattices, which are not lattice translations whenever the primitive atom order is not the supercell order (positions_to_reorder)", 1)
    fn = core.find_def(CELLS, "Primitive._get_atomic_permutations")
    asg = {}
    for st in ast.walk(fn):
        if isinstance(st, ast.Assign) and len(st.targets) == 1 and isinstance(st.targets[0], ast.Name):
            asg.setdefault(st.targets[0].id, []).append(st.value)

    def res(e, depth=0):
        while isinstance(e, ast.Name) and len(asg.get(e.id, [])) == 1 and depth < 8:
            e = asg[e.id][0]
            depth += 1
        return e

    def walk_res(e, depth=0):
        for y in ast.walk(e):
            yield y
            if isinstance(y, ast.Name) and len(asg.get(y.id, [])) == 1 and depth < 4:
                yield from walk_res(asg[y.id][0], depth + 1)

    # the selection D[np.where(s2p_map == r)[0]] / D[s2p_map == r] of a difference array D = X - X[ref] (D may be
    # a local or written in place)
    diffs, sels = [], []
    for x in ast.walk(fn):
        if not isinstance(x, ast.Subscript):
            continue
        v = res(x.value)
        if not (isinstance(v, ast.BinOp) and isinstance(v.op, ast.Sub) and isinstance(v.right, ast.Subscript) and core.src(res(v.right.value)) == core.src(res(v.left))):
            continue
        for c in walk_res(x.slice):
            if isinstance(c, ast.Compare) and len(c.ops) == 1 and isinstance(c.ops[0], ast.Eq):
                sides = [c.left, c.comparators[0]]
                maps = [y for y in sides if core.src(res(y)).endswith("_s2p_map") or core.src(res(y)).endswith(".s2p_map")]
                others = [y for y in sides if y not in maps]
                if len(maps) == 1 and len(others) == 1:
                    diffs.append((None, v.right.slice, v))
                    sels.append((x, others[0]))
    if len(diffs) != 1 or len(sels) != 1:
        raise AnalysisError(f"R04k: Primitive._get_atomic_permutations no longer builds its translations as (positions - positions[reference])[s2p_map == representative] ({len(diffs)} differences, {len(sels)} selections)")
    ref, rep_expr = res(diffs[0][1]), res(sels[0][1])
    same = core.src(ref) == core.src(rep_expr)
    # or: the reference is one of the selected images, idx[k] with idx = np.where(s2p_map == r)[0]
    if not same and isinstance(ref, ast.Subscript):
        base = res(ref.value)
        sel_cmp = [core.src(cc) for cc in walk_res(sels[0][0].slice) if isinstance(cc, ast.Compare)]
        same = any(isinstance(c, ast.Compare) and core.src(c) in sel_cmp for c in walk_res(ref.value))
    rep.instance("R04k", CELLS, "Primitive._get_atomic_permutations", f"translations = (positions - positions[{core.src(ref)}])[s2p_map == {core.src(rep_expr)}]", same,
                 f"the reference atom '{core.src(ref)}' is not taken from the sublattice selected by 's2p_map == {core.src(rep_expr)}': the stored 'translations' are offsets between two sublattices unless supercell atom {core.src(ref)} happens to be an image of that primitive atom (true only for the default atom order); the permutations then map atoms onto another species or the search fails for a valid cell", line=diffs[0][2].lineno)


def _r04i(rep):
    """The surrounding frame of the old-style construction is spanned by the supercell basis vectors."""
    from engine import symnp

    rep.rule("R04i", "surrounding frame: the eight points whose extent gives the frame are 0, a, b, c, b+c, c+a, a+b, a+b+c with a, b, c the COLUMNS of the supercell matrix (the supercell basis vectors in unit-cell coordinates), and frame[i] is the extent of their i-th coordinate (symbolic evaluation on a 3x3 matrix of symbols)", 2)
    fn = core.find_def(CELLS, "Supercell._get_surrounding_frame")
    par = fn.args.args[1].arg
    M = symnp.matrix("m", 3, 3)
    ev = symnp.Evaluator({par: M}, where=f"{CELLS}::Supercell._get_surrounding_frame")
    frame_stmt = None
    for st in fn.body:
        if isinstance(st, (ast.Assign, ast.Return)) and st.value is not None and any(isinstance(x, ast.Call) and core.src(x.func) in ("max", "min", "np.max", "np.min", "np.ptp", "np.amax", "np.amin") for x in ast.walk(st.value)):
            frame_stmt = st
            continue
        if isinstance(st, ast.Assign) and len(st.targets) == 1 and isinstance(st.targets[0], ast.Name):
            ev.env[st.targets[0].id] = ev.ev(st.value)
    if frame_stmt is None:
        raise AnalysisError("Supercell._get_surrounding_frame: the extent computation vanished")
    # the array whose extent is taken
    arrs = {x.value.id for x in ast.walk(frame_stmt.value) if isinstance(x, ast.Subscript) and isinstance(x.value, ast.Name) and x.value.id in ev.env and symnp.shape(ev.env[x.value.id])[-1:] == (3,) and len(symnp.shape(ev.env[x.value.id])) == 2}
    if len(arrs) != 1:
        raise AnalysisError(f"Supercell._get_surrounding_frame: cannot tell which points the extent is taken of ({sorted(arrs)})")
    pts = ev.env[arrs.pop()]
    got = {tuple(sp.expand(x) for x in row) for row in pts}
    cols = [[M[r][k] for r in range(3)] for k in range(3)]
    want = set()
    import itertools

    for c in itertools.product((0, 1), repeat=3):
        want.add(tuple(sp.expand(sum(c[k] * cols[k][r] for k in range(3))) for r in range(3)))
    rep.instance("R04i", CELLS, "Supercell._get_surrounding_frame", f"{len(got)} corner points of the supercell parallelepiped", got == want,
                 f"the points whose extent defines the frame are not the combinations of the columns of the supercell matrix (e.g. {sorted(map(str, got - want))[:2]}): the box is the one of the transposed matrix, too small for some valid matrices (axis-relabelling ones), whose supercells then lose atoms and are rejected although the SNF construction builds them", line=fn.lineno)
    t = core.src(frame_stmt.value).replace(" ", "")
    ok_f = bool(re.search(r"for(\w+)in\(0,1,2\)|for(\w+)inrange\(3\)", t)) and "[:," in t
    rep.instance("R04i", CELLS, "Supercell._get_surrounding_frame", core.norm(core.src(frame_stmt), 90), ok_f, "the frame is not the extent of coordinate i of the corner points for i = 0, 1, 2", line=frame_stmt.lineno)


def _r04n(rep):
    """The automatically guessed primitive matrix: frame typing of guess_primitive_matrix with the conventions of its
    two sources -- spglib's transformation_matrix takes coordinates in the input cell to coordinates in the
    standardised cell (x_c = T x_u), get_primitive_matrix_by_centring gives the primitive axes as columns in the
    standardised cell -- and the type of what it returns: the primitive axes as columns in the *input* cell."""
    rep.rule("R04n", "guess_primitive_matrix: every product pairs a component index with a basis index of the same cell, and the matrix returned has the primitive axes as columns in the coordinates of the input cell, (L(u)+, L(p)-) = inv(T) M with T: input -> standardised coordinates and M: primitive axes in standardised coordinates; M^T inv(T) transposed back is inv(T)^T M, which agrees only for symmetric T", 2)
    fn = core.find_def(CELLS, "guess_primitive_matrix")
    seeds = {}
    for nd in ast.walk(fn):
        if isinstance(nd, ast.Attribute) and nd.attr == "transformation_matrix":
            seeds[core.src(nd)] = (L("c", "+"), L("u", "-"))
    if not seeds:
        raise AnalysisError("R04n: guess_primitive_matrix no longer reads transformation_matrix from the symmetry dataset")
    sigs = dict(SIGS)
    sigs["get_primitive_matrix_by_centring"] = {"ret": (L("c", "+"), L("p", "-"))}
    ty = frames.Typer(fn, seeds=seeds, params={}, call_sigs=sigs, where=f"{CELLS}::guess_primitive_matrix")
    problems = ty.run()
    for p in problems:
        rep.instance("R04n", CELLS, "guess_primitive_matrix", core.norm(core.src(p.node), 90), False,
                     f"{p.message}: the transformation to the standardised cell and the centring matrix are combined in the wrong orientation; for a cell whose transformation matrix is not symmetric (any monoclinic / triclinic input not already standardised) the guessed primitive matrix is wrong", line=getattr(p.node, "lineno", fn.lineno))
    if not problems:
        rep.instance("R04n", CELLS, "guess_primitive_matrix", f"{ty.n_typed} products typed consistently", True, "", line=fn.lineno, nontrivial=ty.n_typed > 0)
    want = (L("u", "+"), L("p", "-"))
    if not ty.returns:
        raise AnalysisError("R04n: guess_primitive_matrix has no return statement that could be typed")
    for t in ty.returns:
        if t is None:
            if problems:
                continue
            rep.unknown("R04n: the matrix returned by guess_primitive_matrix could not be typed")
            continue
        ok = len(t) == 2 and all(frames.same_axis(x, y) is not False for x, y in zip(t, want))
        rep.instance("R04n", CELLS, "guess_primitive_matrix", f"returns {frames.show(t)}", ok,
                     f"guess_primitive_matrix returns a matrix of type {frames.show(t)}; the primitive matrix has the type {frames.show(want)} (columns = primitive axes in the coordinates of the input cell): it is transposed / inverted with respect to what Primitive expects", line=fn.lineno)


_run_main = run


def run(rep: core.Report):
    from rules import shared_trunc

    _run_main(rep)
    shared_trunc.run(rep, "R04f")
    _r04g(rep)
    _r04i(rep)
    _r04j(rep)
    _r04k(rep)
    _r04l(rep)
    _r04m(rep)
    _r04n(rep)
    from rules import shared_sibperm

    shared_sibperm.run_reorder(rep, "R04o", [CELLS, "phonopy/structure/atoms.py"], 1)
    from rules import shared_bcast

    shared_bcast.run(rep, "R04h", sorted(core.python_files("phonopy/structure")))


def selftest():
    V = []
    b = lambda name, file, old, new, rule, expect="", **kw: V.append(dict(name=name, kind="break", file=file, old=old, new=new, rule=rule, expect=expect, **kw))
    n = lambda name, file, old, new, **kw: V.append(dict(name=name, kind="neutral", file=file, old=old, new=new, **kw))
    V.append(dict(name="atom map of the trimmed cell reordered through another index array", kind="break", rule="R04o", expect="_run", edits=[dict(file=CELLS, old="            extracted_atoms = extracted_atoms[ids]", new="            slots = np.argsort(ids)\n            extracted_atoms = extracted_atoms[slots]")]))
    b("tolerance handed to the trimming helper in the position of its overlap flag", CELLS, "            supercell,\n            symprec=self._symprec,\n            positions_to_reorder=positions_to_reorder,", "            supercell,\n            self._symprec,\n            positions_to_reorder=positions_to_reorder,", "R04y.argname", "_create_primitive_cell")
    n("overlap flag and tolerance both positional", CELLS, "            supercell,\n            symprec=self._symprec,\n            positions_to_reorder=positions_to_reorder,", "            supercell,\n            True,\n            self._symprec,\n            positions_to_reorder=positions_to_reorder,")
    b("guessed primitive matrix assembled from the transposes", CELLS, "    return np.array(np.dot(np.linalg.inv(tmat), pmat), dtype=\"double\", order=\"C\")", "    return np.array(np.dot(pmat.T, np.linalg.inv(tmat)).T, dtype=\"double\", order=\"C\")", "R04n", "guess_primitive_matrix")
    n("guessed primitive matrix through the transposed product, correctly", CELLS, "    return np.array(np.dot(np.linalg.inv(tmat), pmat), dtype=\"double\", order=\"C\")", "    return np.array(np.dot(pmat.T, np.linalg.inv(tmat).T).T, dtype=\"double\", order=\"C\")")
    b("guessed primitive matrix returned transposed", CELLS, "    return np.array(np.dot(np.linalg.inv(tmat), pmat), dtype=\"double\", order=\"C\")", "    return np.array(np.dot(pmat.T, np.linalg.inv(tmat).T), dtype=\"double\", order=\"C\")", "R04n", "returns")
    b("p2p_map numbered by the sorted distinct values of s2p_map", CELLS, "        p2p_map = dict([(j, i) for i, j in enumerate(self._p2s_map)])", "        p2p_map = {j: i for i, j in enumerate(np.unique(s2p_map))}", "R04m", "_map_atomic_indices")
    b("copy() hands the atomic numbers over instead of the symbols", "phonopy/structure/atoms.py", "            magnetic_moments=self._magnetic_moments,\n            symbols=self._symbols,\n        )", "            magnetic_moments=self._magnetic_moments,\n            numbers=self.numbers,\n        )", "R04l", "copy")
    b("translations referenced to supercell atom 0's representative", CELLS, "        diff = positions - positions[self._p2s_map[0]]", "        diff = positions - positions[self._s2p_map[0]]", "R04k", "_get_atomic_permutations")
    n("translations referenced to the first selected image", CELLS, "        diff = positions - positions[self._p2s_map[0]]\n        trans = np.array(\n            diff[np.where(self._s2p_map == self._p2s_map[0])[0]],", "        images = np.where(self._s2p_map == self._p2s_map[0])[0]\n        diff = positions - positions[images[0]]\n        trans = np.array(\n            diff[images],")
    b("supercell-to-unit map from the surrounding-cell index by the supercell block length", CELLS, "            self._s2u_map = np.array(u2sur_map[sur2s_map] * N, dtype=\"int64\")", "            self._s2u_map = np.array(sur2s_map // N * N, dtype=\"int64\")", "R04j", "_create_supercell")
    n("supercell-to-unit map scaled after the conversion", CELLS, "            self._s2u_map = np.array(u2sur_map[sur2s_map] * N, dtype=\"int64\")", "            self._s2u_map = np.array(u2sur_map[sur2s_map], dtype=\"int64\") * N")
    b("atom map of the surrounding cell indexed by itself", CELLS, "            self._s2u_map = np.array(u2sur_map[sur2s_map] * N, dtype=\"int64\")", "            self._s2u_map = np.array(sur2s_map[u2sur_map] * N, dtype=\"int64\")", "R04j", "_create_supercell")
    b("snf supercell lattice uses S instead of S^T", CELLS, "            cell=np.dot(mat.T, lattice),", "            cell=np.dot(mat, lattice),", "R04a", "np.dot(mat, lattice)")
    b("positions multiplied by inv(S) without transpose", CELLS, "            np.linalg.inv(mat).T,\n        )\n        symbols_multi", "            np.linalg.inv(mat),\n        )\n        symbols_multi", "R04a", "_get_simple_supercell")
    b("primitive mapping without transpose", CELLS, "frac_pos = np.dot(s_pos_orig, np.linalg.inv(self._primitive_matrix).T)", "frac_pos = np.dot(s_pos_orig, np.linalg.inv(self._primitive_matrix))", "R04a", "_map_atomic_indices")
    b("cartesian differences with transposed cell", CELLS, "            cart_diffs = np.dot(frac_diffs, self.cell)", "            cart_diffs = np.dot(frac_diffs, self.cell.T)", "R04a", "_map_atomic_indices")
    b("maps stored although the atom count is wrong", CELLS, "            print(mapping_table)\n            super().__init__()", "            print(mapping_table)\n            super().__init__()\n            self._u2s_map = np.arange(num_uatom)", "R04b", "determinant")
    b("species check on atomic numbers only", CELLS, "        if supercell.symbols != mapped_symbols:", "        if (supercell.numbers != supercell.numbers[mapping_table]).any():", "R04b", "_create_primitive_cell")
    b("species check dropped", CELLS, "        if supercell.symbols != mapped_symbols:", "        if False:", "R04b", "_create_primitive_cell")
    n("species check written with any()", CELLS, "        if supercell.symbols != mapped_symbols:", "        if any(a != b for a, b in zip(supercell.symbols, mapped_symbols)):")
    n("atom-count test written multiplicatively", CELLS, "        if N != determinant(self._supercell_matrix):", "        if num_satom != num_uatom * determinant(self._supercell_matrix):")
    b("atom-count ratio inverted", CELLS, "        N = num_satom // num_uatom", "        N = num_uatom // num_satom", "R04b", "det(S)")
    n("uniqueness as if-raise", CELLS, "            assert len(indices) == 1", "            if len(indices) != 1:\n                raise RuntimeError('mapping failed')")
    b("uniqueness test dropped", CELLS, "            assert len(indices) == 1\n", "", "R04b", "_map_atomic_indices")
    b("unimodularity assertion dropped", CELLS, "            assert determinant(P_inv) == 1\n", "", "R04c", "determinant")
    b("atom-count gate rounds on the coarse side", CELLS, "        scale = 1.0 / np.linalg.det(relative_axes)\n        if len(cell) == int(np.rint(scale * len(trimmed_symbols))):", "        num_trimmed = int(np.rint(len(cell) * np.linalg.det(relative_axes)))\n        if len(trimmed_symbols) == num_trimmed:", "R04d", "TrimmedCell._run")
    n("atom-count gate without a temporary", CELLS, "        scale = 1.0 / np.linalg.det(relative_axes)\n        if len(cell) == int(np.rint(scale * len(trimmed_symbols))):", "        if len(cell) == int(np.rint(len(trimmed_symbols) / np.linalg.det(relative_axes))):")
    b("shortest vectors converted with inv(primitive matrix) untransposed", CELLS, "        trans_mat_float = np.dot(supercell_bases, np.linalg.inv(primitive_bases))", "        trans_mat_float = np.linalg.inv(self._primitive_matrix)", "R04a", "_get_smallest_vectors")
    n("shortest vectors converted with inv(primitive matrix) transposed", CELLS, "        trans_mat_float = np.dot(supercell_bases, np.linalg.inv(primitive_bases))", "        trans_mat_float = np.linalg.inv(self._primitive_matrix).T")
    n("dot written as matmul", CELLS, "            cart_diffs = np.dot(frac_diffs, self.cell)", "            cart_diffs = frac_diffs @ self.cell")
    b("trimming frame divided column-wise by broadcasting", CELLS, "            trim_frame = np.array(\n                [\n                    mat[0] / float(multi[0]),\n                    mat[1] / float(multi[1]),\n                    mat[2] / float(multi[2]),\n                ]\n            )", "            trim_frame = mat / np.array(multi, dtype=\"double\")", "R04g", "trim_frame")
    n("trimming frame divided row-wise by broadcasting", CELLS, "            trim_frame = np.array(\n                [\n                    mat[0] / float(multi[0]),\n                    mat[1] / float(multi[1]),\n                    mat[2] / float(multi[2]),\n                ]\n            )", "            trim_frame = mat / np.array(multi, dtype=\"double\")[:, None]")
    b("surrounding frame from the rows of the supercell matrix", CELLS, "                m[:, 0],\n                m[:, 1],\n                m[:, 2],\n                m[:, 1] + m[:, 2],\n                m[:, 2] + m[:, 0],\n                m[:, 0] + m[:, 1],\n                m[:, 0] + m[:, 1] + m[:, 2],", "                m[0],\n                m[1],\n                m[2],\n                m[1] + m[2],\n                m[2] + m[0],\n                m[0] + m[1],\n                m[0] + m[1] + m[2],", "R04i", "corner points")
    n("surrounding frame corners by a product with the transposed matrix", CELLS, "        axes = np.array(\n            [\n                [0, 0, 0],\n                m[:, 0],\n                m[:, 1],\n                m[:, 2],\n                m[:, 1] + m[:, 2],\n                m[:, 2] + m[:, 0],\n                m[:, 0] + m[:, 1],\n                m[:, 0] + m[:, 1] + m[:, 2],\n            ]\n        )", "        corners = [[i, j, k] for i in (0, 1) for j in (0, 1) for k in (0, 1)]\n        axes = np.dot(corners, m.T)")
    from rules import shared_trunc

    shared_trunc.variants(b, None, "R04f")
    return V
