"""C04 — supercell / primitive cell re-tilings: frame typing of the lattice algebra,
rejection of cells that cannot be tiled (DESIGN §3 C04)."""

from __future__ import annotations

import ast

from engine import core, frames
from engine.core import AnalysisError
from engine.frames import A, C, D, L, U

CELLS = "phonopy/structure/cells.py"
DFC = "phonopy/harmonic/dynmat_to_fc.py"

SMAT = (L("u", "+"), L("s", "-"))  # supercell matrix:  cell_s.T = cell_u.T @ S
PMAT = (L("s", "+"), L("p", "-"))  # primitive matrix:  cell_p.T = cell_s.T @ M

CELL_SIG = {"kw": {"cell": (L("*", "-"), C), "scaled_positions": (A, L("*", "+")), "positions": (A, C)}}
SIGS = {"PhonopyAtoms": CELL_SIG, "__init__": CELL_SIG, "get_reduced_bases": {"ret": (L("r", "-"), C)}}

# (file, qualname, seeds, parameter types)
SCOPE = [
    (CELLS, "Supercell._get_simple_supercell", {"self._supercell_matrix": SMAT}, {}),
    (CELLS, "Supercell._create_supercell", {"self._supercell_matrix": SMAT}, {}),
    (CELLS, "Primitive._map_atomic_indices", {"self._primitive_matrix": PMAT}, {"s_pos_orig": (A, L("s", "+"))}),
    (CELLS, "Primitive._get_atomic_permutations", {}, {}),
    (CELLS, "Primitive._get_smallest_vectors", {"self._primitive_matrix": PMAT}, {}),
    (CELLS, "TrimmedCell._run", {}, {"relative_axes": (L("*", "+"), L("t", "-"))}),
    (CELLS, "TrimmedCell._extract", {}, {}),
    (CELLS, "ShortestPairs._transform_cell_basis", {"self._supercell_bases": (L("s", "-"), C), "self._supercell_pos": (A, L("s", "+")), "self._primitive_pos": (A, L("s", "+"))}, {}),
    (CELLS, "ShortestPairs._run_dense", {}, {}),
    (CELLS, "ShortestPairs._run_sparse", {}, {}),
    (CELLS, "get_supercell", {}, {}),
    (CELLS, "get_primitive", {}, {}),
    (CELLS, "convert_to_phonopy_primitive", {}, {}),
    (CELLS, "get_reduced_bases", {}, {}),
    (CELLS, "compute_permutation_for_rotation", {}, {"lattice": (C, L("*", "-")), "positions_a": (A, L("*", "+")), "positions_b": (A, L("*", "+"))}),
    (DFC, "get_commensurate_points", {}, {"supercell_matrix": SMAT}),
    (DFC, "get_commensurate_points_in_integers", {}, {"supercell_matrix": SMAT}),
]


def run(rep: core.Report):
    rep.rule("R04a", "frame typing: every contraction in the supercell/primitive construction pairs a component index with a basis index of the same lattice (or Cartesian with Cartesian); cell= receives (L-, Cart), scaled_positions= receives (atom, L+)", 12)
    rep.rule("R04b", "rejection: the atom count after trimming is compared with |det| before the maps are stored, and the failing branch stores no maps / raises", 4)
    rep.rule("R04c", "the Smith-normal-form matrices are used only through integer-rounded inverses with a unimodularity assertion", 2)
    typed_total = 0
    for rel, qn, seeds, params in SCOPE:
        try:
            fn = core.find_def(rel, qn)
        except AnalysisError:
            if qn in ("TrimmedCell._extract", "TrimmedCell._run", "get_reduced_bases", "convert_to_phonopy_primitive"):
                continue
            raise
        ty = frames.Typer(fn, seeds=seeds, params=params, call_sigs=SIGS, where=f"{rel}::{qn}")
        problems = ty.run()
        typed_total += ty.n_typed
        if not problems:
            rep.instance("R04a", rel, qn, f"{ty.n_typed} contractions/arguments typed consistently", True, nontrivial=ty.n_typed > 0, line=fn.lineno,
                         sample={"function": qn, "typed": ty.n_typed} if ty.n_typed else None)
        for p in problems:
            rep.instance("R04a", rel, qn, core.norm(core.src(p.node), 90), False,
                         f"{p.message}: the product mixes up a matrix and its transpose (or two different lattices); for a non-symmetric matrix the cell/positions built here are wrong", line=getattr(p.node, "lineno", fn.lineno))
    if typed_total < 10:
        raise AnalysisError(f"R04a: only {typed_total} contractions could be typed; the seeds no longer match the code")
    _r04b(rep)
    _r04c(rep)


def _r04b(rep):
    fn = core.find_def(CELLS, "Supercell._create_supercell")
    ifs = [n for n in ast.walk(fn) if isinstance(n, ast.If) and "determinant(self._supercell_matrix)" in core.src(n.test)]
    ok = False
    if ifs:
        t = ifs[0]
        test = core.src(t.test)
        fail, good = (t.body, t.orelse) if "!=" in test else (t.orelse, t.body)
        stores_fail = [s for b in fail for s in ast.walk(b) if isinstance(s, ast.Assign) and core.src(s.targets[0]).startswith("self._") and "map" in core.src(s.targets[0])]
        stores_good = [s for b in good for s in ast.walk(b) if isinstance(s, ast.Assign) and core.src(s.targets[0]).startswith("self._") and "map" in core.src(s.targets[0])]
        ok = not stores_fail and len(stores_good) >= 3
    rep.instance("R04b", CELLS, "Supercell._create_supercell", core.norm(core.src(ifs[0].test), 80) if ifs else "<no determinant test>", ok,
                 "the supercell's atom count is not compared with det(S) before the index maps are stored (or the failing branch stores maps)", line=fn.lineno)
    # meaning of the test, whatever its form: it holds exactly when len(trimmed cell) == len(unit cell) * det(S)
    import sympy as sp
    from engine import symalg

    ok_sem, shown = False, "<no determinant test>"
    if ifs and isinstance(ifs[0].test, ast.Compare) and len(ifs[0].test.ops) == 1 and isinstance(ifs[0].test.ops[0], (ast.Eq, ast.NotEq)):
        tr = symalg.OpenPyTranslator(where="Supercell._create_supercell")
        env = tr.summary(fn)
        lhs, rhs = tr.expr(ifs[0].test.left, env), tr.expr(ifs[0].test.comparators[0], env)
        diff = lhs - rhs
        lens = [x for x in diff.atoms(sp.Function) if x.func.__name__ == "len"]
        S = [x for x in lens if "_trim_cell" in str(x)]
        U = [x for x in lens if str(x) == "len(unitcell)"]
        Dt = [x for x in diff.atoms(sp.Function) if x.func.__name__ == "determinant" and "supercell_matrix" in str(x)]
        shown = core.norm(core.src(ifs[0].test), 80)
        if S and U and Dt:
            u, d = sp.Symbol("u", positive=True, integer=True), sp.Symbol("d", positive=True, integer=True)
            eq = sp.simplify(diff.subs(S[0], u * d).subs(U[0], u).subs(Dt[0], d))
            ne = sp.simplify(diff.subs(S[0], u * (d + 1)).subs(U[0], u).subs(Dt[0], d))
            ok_sem = eq == 0 and ne != 0
    rep.instance("R04b", CELLS, "Supercell._create_supercell", f"{shown}  <=>  len(trimmed cell) == len(unit cell) * det(S)", ok_sem,
                 "the rejection test does not compare the atom count of the trimmed cell with len(unitcell) * det(supercell matrix)", line=fn.lineno)
    pf = core.find_def(CELLS, "Primitive._create_primitive_cell")
    # the rejection compares a per-atom species label of the supercell with the same label gathered through the
    # mapping table; the label must be the full symbol (index-decorated symbols such as Cr1/Cr2 share one atomic number)
    defs = {core.src(s.targets[0]): s.value for s in ast.walk(pf) if isinstance(s, ast.Assign) and len(s.targets) == 1 and isinstance(s.targets[0], ast.Name)}
    verdict, shown = None, "<no rejecting comparison through mapping_table>"
    for n in ast.walk(pf):
        if not (isinstance(n, ast.If) and any(isinstance(b, ast.Raise) for st in n.body for b in ast.walk(st))):
            continue
        exprs = [n.test] + [defs[x.id] for x in ast.walk(n.test) if isinstance(x, ast.Name) and x.id in defs]
        names = {x.id for e in exprs for x in ast.walk(e) if isinstance(x, ast.Name)}
        attrs = {x.attr for e in exprs for x in ast.walk(e) if isinstance(x, ast.Attribute) and core.src(x.value) == "supercell"}
        if "mapping_table" not in names or not attrs:
            continue
        shown = core.norm(core.src(n.test), 70) + f" [supercell.{'/'.join(sorted(attrs))} through mapping_table]"
        verdict = "symbols" in attrs
        if verdict:
            break
    if verdict is None:
        rep.instance("R04b", CELLS, "Primitive._create_primitive_cell", shown, False, "a primitive cell whose atoms do not map onto the same species is no longer rejected", line=pf.lineno)
    else:
        rep.instance("R04b", CELLS, "Primitive._create_primitive_cell", shown, verdict, "the species check compares atomic numbers / masses only: atoms with index-decorated symbols (e.g. Cr1, Cr2) that map onto each other are no longer rejected", line=pf.lineno)
    mf = core.find_def(CELLS, "Primitive._map_atomic_indices")
    # inside the per-atom loop, a count of matches is required to be exactly one (assert, or if-raise)
    uniq = []
    for lp in [n for n in ast.walk(mf) if isinstance(n, ast.For)]:
        local = {t.id for st in ast.walk(lp) if isinstance(st, ast.Assign) for t in st.targets if isinstance(t, ast.Name)}
        for n in ast.walk(lp):
            test = n.test if isinstance(n, (ast.Assert, ast.If)) else None
            if test is None or (isinstance(n, ast.If) and not any(isinstance(x, ast.Raise) for st in n.body for x in ast.walk(st))):
                continue
            for c in [x for x in ast.walk(test) if isinstance(x, ast.Compare) and len(x.ops) == 1]:
                sides = [c.left, c.comparators[0]]
                one = [x for x in sides if isinstance(x, ast.Constant) and x.value == 1]
                cnt = [x for x in sides if not isinstance(x, ast.Constant) and {y.id for y in ast.walk(x) if isinstance(y, ast.Name)} & local and ("len(" in core.src(x) or ".size" in core.src(x) or "count" in core.src(x) or "sum" in core.src(x))]
                want = ast.Eq if isinstance(n, ast.Assert) else ast.NotEq
                if one and cnt and isinstance(c.ops[0], want):
                    uniq.append(n)
    rep.instance("R04b", CELLS, "Primitive._map_atomic_indices", core.norm(core.src(uniq[0]), 60) if uniq else "<no uniqueness test>", bool(uniq), "a supercell atom matching zero or several primitive atoms is no longer rejected", line=mf.lineno)
    tf = core.find_def(CELLS, "_trim_cell")
    t = core.src(tf)
    rep.instance("R04b", CELLS, "_trim_cell", "trimmed cell reports the mapping table used for the atom-count check", "mapping_table" in t, "mapping table vanished", line=tf.lineno, nontrivial=False)


def _r04c(rep):
    fn = core.find_def(CELLS, "Supercell._get_simple_supercell")
    from engine import symalg

    tr = symalg.OpenPyTranslator(where="Supercell._get_simple_supercell")
    env = tr.summary(fn)
    found = None
    for a in [x for x in ast.walk(fn) if isinstance(x, ast.Assert)] + [x for x in ast.walk(fn) if isinstance(x, ast.If) and any(isinstance(y, ast.Raise) for y in ast.walk(x))]:
        for c in [x for x in ast.walk(a.test) if isinstance(x, ast.Compare) and len(x.ops) == 1]:
            sides = [c.left, c.comparators[0]]
            if any(isinstance(x, ast.Constant) and x.value == 1 for x in sides) and any("determinant" in core.src(x) or "det(" in core.src(x) for x in sides):
                detside = [x for x in sides if not isinstance(x, ast.Constant)][0]
                found = (a, str(tr.expr(detside, env)))
    ok2 = found is not None
    ok1 = ok2 and "np.rint(np.linalg.inv(P))" in found[1] and ("int" in found[1].split("np.rint")[0] + found[1].split("np.linalg.inv(P))")[-1])
    rep.instance("R04c", CELLS, "Supercell._get_simple_supercell", "the matrix whose determinant is asserted is rint(inv(P)) cast to integers", bool(ok1), f"the asserted matrix is {found[1] if found else '<none>'}, not the integer-rounded inverse of the SNF transformation P", line=fn.lineno)
    rep.instance("R04c", CELLS, "Supercell._get_simple_supercell", "determinant of the inverse transformation is required to be 1", ok2, "the unimodularity assertion on the SNF transformation vanished", line=fn.lineno)


def selftest():
    V = []
    b = lambda name, file, old, new, rule, expect="", **kw: V.append(dict(name=name, kind="break", file=file, old=old, new=new, rule=rule, expect=expect, **kw))
    n = lambda name, file, old, new, **kw: V.append(dict(name=name, kind="neutral", file=file, old=old, new=new, **kw))
    b("snf supercell lattice uses S instead of S^T", CELLS, "            cell=np.dot(mat.T, lattice),", "            cell=np.dot(mat, lattice),", "R04a", "np.dot(mat, lattice)")
    b("positions multiplied by inv(S) without transpose", CELLS, "            np.linalg.inv(mat).T,\n        )\n        symbols_multi", "            np.linalg.inv(mat),\n        )\n        symbols_multi", "R04a", "_get_simple_supercell")
    b("primitive mapping without transpose", CELLS, "frac_pos = np.dot(s_pos_orig, np.linalg.inv(self._primitive_matrix).T)", "frac_pos = np.dot(s_pos_orig, np.linalg.inv(self._primitive_matrix))", "R04a", "_map_atomic_indices")
    b("cartesian differences with transposed cell", CELLS, "            cart_diffs = np.dot(frac_diffs, self.cell)", "            cart_diffs = np.dot(frac_diffs, self.cell.T)", "R04a", "_map_atomic_indices")
    b("maps stored although the atom count is wrong", CELLS, "            print(mapping_table)\n            super().__init__()", "            print(mapping_table)\n            super().__init__()\n            self._u2s_map = np.arange(num_uatom)", "R04b", "determinant")
    b("species check on atomic numbers only", CELLS, "        if supercell.symbols != mapped_symbols:", "        if (supercell.numbers != supercell.numbers[mapping_table]).any():", "R04b", "_create_primitive_cell")
    b("species check dropped", CELLS, "        if supercell.symbols != mapped_symbols:", "        if False:", "R04b", "_create_primitive_cell")
    n("species check written with any()", CELLS, "        if supercell.symbols != mapped_symbols:", "        if any(a != b for a, b in zip(supercell.symbols, mapped_symbols)):")
    n("atom-count test written multiplicatively", CELLS, "        if N != determinant(self._supercell_matrix):", "        if num_satom != num_uatom * determinant(self._supercell_matrix):")
    b("atom-count ratio inverted", CELLS, "        N = num_satom // num_uatom", "        N = num_uatom // num_satom", "R04b", "det(S)")
    n("uniqueness as if-raise", CELLS, "            assert len(indices) == 1", "            if len(indices) != 1:\n                raise RuntimeError('mapping failed')")
    b("uniqueness test dropped", CELLS, "            assert len(indices) == 1\n", "", "R04b", "_map_atomic_indices")
    b("unimodularity assertion dropped", CELLS, "            assert determinant(P_inv) == 1\n", "", "R04c", "determinant")
    n("dot written as matmul", CELLS, "            cart_diffs = np.dot(frac_diffs, self.cell)", "            cart_diffs = frac_diffs @ self.cell")
    return V
