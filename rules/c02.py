"""C02 -- phonons equal the lattice Fourier sum: the shape of the sum (DESIGN section 3 C02).

Decided: every term the compiled kernel and the Python reference add to D_jj'(q) is
Phi(j0, j'l) e^{2 pi i q.s} / sqrt(m_j m_j') averaged over the stored shortest vectors of that pair; the sum runs over
exactly the supercell atoms that are images of j'; the element lands in block (j, j'); full and compact layouts hand
the kernel index maps with the same meaning; eigenvalues become frequencies by sign(e) sqrt|e| factor.
Not decided: that the stored shortest vectors are the minimum-image vectors (C05) and the value-level equality with a
closed-form crystal.
"""

from __future__ import annotations

import ast
import re

import sympy as sp

from engine import cast, celem, core, symalg
from engine.core import AnalysisError
from rules import c06

DYN = "c/dynmat.c"
PYDM = "phonopy/harmonic/dynamical_matrix.py"
QP = "phonopy/phonon/qpoints.py"


def run(rep: core.Report):
    rep.rule("R02a", "compiled kernel, one image: fc[p2s(i)][k] e^{+2 pi i q.s} averaged over the multi shortest vectors of (supercell atom k, primitive atom i), block divided by sqrt(m_i m_j)", 4)
    rep.rule("R02b", "compiled kernel, the lattice sum: k runs over all num_satom supercell atoms and keeps exactly those with s2p_map[k] == p2s_map[j]; the block is written at [(i*3+a)*3*num_patom + j*3+b]; serial and OpenMP twins call the same element routine", 4)
    rep.rule("R02c", "Python reference: the same selection, phase, multiplicity average, mass factor and block address; full / compact rows chosen by the shape test", 6)
    rep.rule("R02d", "index maps handed to the kernel mean the same in both layouts: full (p2s_map, s2p_map), compact (arange, primitive index of every supercell atom)", 2)
    rep.rule("R02f", "the shortest vectors handed to the Fourier sum are converted from supercell to primitive-cell coordinates with the matrix of matching orientation (frame typing), so that q.s is the phase of a reduced q-point", 1)
    rep.rule("R02e", "frequencies are sign(e) sqrt|e| * factor of the eigenvalues of that matrix", 1)
    tu = cast.load(DYN, symbolize=("PI",))
    ex = celem.ElemExec(tu, where=DYN, consts={"PI": sp.pi}, null_pointers={"charge_sum"})
    c06.forward_kernel(rep, "R02a", tu, ex)
    # ---- R02b ------------------------------------------------------------
    gij = tu.functions["get_dynmat_ij"]
    loops = [x for x in cast.walk(gij) if x.get("kind") == "ForStmt" and any(y.get("kind") == "CallExpr" and cast.callee_name(y) == "get_dm" for y in cast.walk(x))]
    if len(loops) != 1:
        raise AnalysisError("R02b: the image loop of get_dynmat_ij vanished")
    lp = loops[0]
    trip = cast.text([x for x in lp.get("inner", []) if isinstance(x, dict) and x.get("kind")][-3])
    init = cast.text([x for x in lp.get("inner", []) if isinstance(x, dict) and x.get("kind")][0])
    rep.instance("R02b", DYN, "get_dynmat_ij", f"for ({init}; {trip}; ...)", init.replace(" ", "") == "k=0" and trip.replace(" ", "") == "k<num_satom", "the image loop does not run over all supercell atoms", line=tu.line(lp))
    body = cast.kids(lp)[-1]
    stmts = cast.kids(body) if body.get("kind") == "CompoundStmt" else [body]
    skip = [x for x in stmts if x.get("kind") == "IfStmt"]
    call = [x for x in stmts if x.get("kind") == "CallExpr" and cast.callee_name(x) == "get_dm"]
    ok_sel = False
    shown = "<no selection>"
    if len(skip) == 1 and len(call) == 1:
        ks = cast.kids(skip[0])
        cond = cast.text(ks[0]).replace(" ", "")
        only_continue = len(ks) == 2 and [y.get("kind") for y in (cast.kids(ks[1]) if ks[1].get("kind") == "CompoundStmt" else [ks[1]])] == ["ContinueStmt"]
        shown = f"if ({cast.text(ks[0])}) continue; get_dm(...)"
        ok_sel = only_continue and cond in ("s2p_map[k]!=p2s_map[j]", "p2s_map[j]!=s2p_map[k]") and stmts.index(skip[0]) < stmts.index(call[0])
    elif len(call) == 0:
        # the call may sit inside `if (s2p_map[k] == p2s_map[j]) { get_dm(...) }`
        for x in stmts:
            if x.get("kind") == "IfStmt" and any(y.get("kind") == "CallExpr" and cast.callee_name(y) == "get_dm" for y in cast.walk(x)):
                cond = cast.text(cast.kids(x)[0]).replace(" ", "")
                shown = f"if ({cast.text(cast.kids(x)[0])}) get_dm(...)"
                ok_sel = cond in ("s2p_map[k]==p2s_map[j]", "p2s_map[j]==s2p_map[k]") and len(cast.kids(x)) == 2
    rep.instance("R02b", DYN, "get_dynmat_ij", shown, ok_sel, "the lattice sum does not keep exactly the supercell atoms that are images of primitive atom j", line=tu.line(lp))
    gcalls = [x for x in cast.walk(lp) if x.get("kind") == "CallExpr" and cast.callee_name(x) == "get_dm"]
    args = [cast.text(a) for a in cast.call_args(gcalls[0])] if gcalls else []
    rep.instance("R02b", DYN, "get_dynmat_ij", f"get_dm(..., {', '.join(args[-3:])})", args[-3:] == ["i", "j", "k"] and args[:1] == ["dm"], "the element routine is not called for (i, j, image k)", line=tu.line(lp))
    outs = [x for x in cast.walk(gij) if x.get("kind") == "BinaryOperator" and x.get("opcode") == "=" and cast.text(cast.kids(x)[0]) == "adrs"]
    i, j, k, l, n = sp.symbols("i j k l num_patom", integer=True)
    ok_adr = False
    if len(outs) == 1:
        ctx = celem.State(ex, "get_dynmat_ij", {"i": i, "j": j, "k": k, "l": l, "num_patom": n}, {}, 0)
        adr = ctx.expr(cast.kids(outs[0])[1])
        ok_adr = sp.expand(adr - ((i * 3 + k) * n * 3 + j * 3 + l)) == 0
    rep.instance("R02b", DYN, "get_dynmat_ij", "block address (i*3 + a) * 3 num_patom + j*3 + b", ok_adr, "the 3x3 block of the pair (i, j) is not stored at rows 3i.., columns 3j..", line=tu.line(gij))
    # ---- R02c ------------------------------------------------------------
    fwd = core.find_def(PYDM, "DynamicalMatrix._run_py_dynamical_matrix")
    _r02k(rep)
    _r02m(rep)
    core.require_names(fwd, ["phase", "vec", "q", "fc_elem", "phase_factor", "sqrt_mm", "m", "k", "dm_local", "mass", "i", "j", "s_i", "s_j", "is_compact_fc", "svecs_at", "svecs", "multi", "adrs", "ll", "fc", "dm"], f"{PYDM}::_run_py_dynamical_matrix")
    defs = {core.src(st.targets[0]): st.value for st in ast.walk(fwd) if isinstance(st, ast.Assign) and isinstance(st.targets[0], ast.Name)}
    loops_py = [lp_ for lp_ in ast.walk(fwd) if isinstance(lp_, ast.For)]
    iters = {core.src(lp_.target): core.src(lp_.iter) for lp_ in loops_py}
    ok_loops = iters.get("(i, s_i)") == "enumerate(self._pcell.p2s_map)" and iters.get("(j, s_j)") == "enumerate(self._pcell.p2s_map)" and iters.get("k") == "range(len(self._scell))"
    rep.instance("R02c", PYDM, "DynamicalMatrix._run_py_dynamical_matrix", f"loops {iters}", ok_loops, "the reference does not loop over primitive pairs and all supercell atoms", line=fwd.lineno)
    sel = [n_ for n_ in ast.walk(fwd) if isinstance(n_, ast.If) and "_s2p_map[k]" in core.src(n_.test)]
    ok_selp = len(sel) == 1 and core.src(sel[0].test).replace(" ", "") in ("s_j==self._s2p_map[k]", "self._s2p_map[k]==s_j") and not sel[0].orelse
    rep.instance("R02c", PYDM, "DynamicalMatrix._run_py_dynamical_matrix", core.src(sel[0].test) if sel else "<no selection>", ok_selp, "the reference does not keep exactly the images of primitive atom j", line=fwd.lineno)
    apps = [c.args[0] for c in ast.walk(fwd) if isinstance(c, ast.Call) and core.src(c.func) == "phase.append" and c.args]
    ok_pp = len(apps) == 1 and symalg.same(symalg.open_expr(core.src(apps[0])), symalg.open_expr("np.vdot(vec, q) * 2j * np.pi"))[0]
    ok_vec = core.src(defs.get("vec", ast.Constant(0))) == "svecs_at[ll]" and core.src(defs.get("svecs_at", ast.Constant(0))).replace(" ", "") == "svecs[adrs:adrs+m]"
    tup = [st for st in ast.walk(fwd) if isinstance(st, ast.Assign) and isinstance(st.targets[0], ast.Tuple) and core.src(st.value).replace(" ", "") == "multi[k][i]"]
    ok_pair = len(tup) == 1 and [core.src(t) for t in tup[0].targets[0].elts] == ["m", "adrs"]
    rep.instance("R02c", PYDM, "DynamicalMatrix._run_py_dynamical_matrix", "phase = 2 pi i q . svecs[adrs + ll] over the multi[k][i] vectors", ok_pp and ok_vec and ok_pair, "the reference phase is not e^{+2 pi i q.s} over the shortest vectors of (supercell atom k, primitive atom i)", line=fwd.lineno)
    augs = [a for a in ast.walk(fwd) if isinstance(a, ast.AugAssign) and core.src(a.target) == "dm_local" and isinstance(a.op, ast.Add)]
    ok_acc = len(augs) == 1 and symalg.same(symalg.open_expr(core.src(augs[0].value)), symalg.open_expr("fc_elem[k] * phase_factor / sqrt_mm / m"))[0]
    ok_acc = ok_acc and core.src(defs.get("phase_factor", ast.Constant(0))).replace(" ", "") == "np.exp(phase).sum()" and symalg.same(symalg.open_expr(core.src(defs.get("sqrt_mm", ast.Constant(0)))), symalg.open_expr("np.sqrt(mass[i] * mass[j])"))[0]
    rep.instance("R02c", PYDM, "DynamicalMatrix._run_py_dynamical_matrix", core.norm(core.src(augs[0]), 70) if augs else "<vanished>", ok_acc, "the reference term is not fc * sum(exp(phase)) / sqrt(m_i m_j) / multiplicity", line=fwd.lineno)
    blk = [a for a in ast.walk(fwd) if isinstance(a, ast.AugAssign) and core.src(a.target).startswith("dm[")]
    ok_blk = False
    if len(blk) == 1 and isinstance(blk[0].target.slice, ast.Tuple) and len(blk[0].target.slice.elts) == 2 and core.src(blk[0].value) == "dm_local":
        sls = blk[0].target.slice.elts
        if all(isinstance(x, ast.Slice) and x.lower is not None and x.upper is not None for x in sls):
            isym, jsym = sp.Symbol("i"), sp.Symbol("j")
            lo = [sp.sympify(core.src(x.lower)) for x in sls]
            hi = [sp.sympify(core.src(x.upper)) for x in sls]
            ok_blk = sp.expand(lo[0] - 3 * isym) == 0 and sp.expand(hi[0] - 3 * isym - 3) == 0 and sp.expand(lo[1] - 3 * jsym) == 0 and sp.expand(hi[1] - 3 * jsym - 3) == 0
    rep.instance("R02c", PYDM, "DynamicalMatrix._run_py_dynamical_matrix", core.norm(core.src(blk[0]), 70) if blk else "<vanished>", ok_blk, "the block of the pair (i, j) is not stored at rows 3i.., columns 3j..", line=fwd.lineno)
    rows = [n_ for n_ in ast.walk(fwd) if isinstance(n_, ast.If) and core.src(n_.test) == "is_compact_fc"]
    ok_rows = len(rows) == 1 and [core.src(s_) for s_ in rows[0].body] == ["fc_elem = fc[i]"] and [core.src(s_) for s_ in rows[0].orelse] == ["fc_elem = fc[s_i]"]
    shape_t = [n_ for n_ in ast.walk(fwd) if isinstance(n_, ast.If) and "fc.shape[0]" in core.src(n_.test)]
    ok_rows = ok_rows and len(shape_t) == 1 and core.src(shape_t[0].test).replace(" ", "") == "fc.shape[0]==fc.shape[1]" and core.src(shape_t[0].body[0]) == "is_compact_fc = False"
    rep.instance("R02c", PYDM, "DynamicalMatrix._run_py_dynamical_matrix", "row of the force constants: fc[s_i] for the full layout, fc[i] for the compact one", ok_rows, "the row of the first atom is taken from the wrong layout", line=fwd.lineno)
    # ---- R02d ------------------------------------------------------------
    _r02d(rep)
    # ---- R02f ------------------------------------------------------------
    from engine import frames
    from engine.frames import C as CART, L as LAT
    from rules.c04 import PMAT, SIGS

    CELLS = "phonopy/structure/cells.py"
    sv = core.find_def(CELLS, "Primitive._get_smallest_vectors")
    ty = frames.Typer(sv, seeds={"self._primitive_matrix": PMAT, "self._cell": (LAT("p", "-"), CART)}, params={}, call_sigs=SIGS, where=f"{CELLS}::Primitive._get_smallest_vectors")
    problems = ty.run()
    if not problems and ty.n_typed < 2:
        raise AnalysisError(f"R02f: only {ty.n_typed} contractions typed in Primitive._get_smallest_vectors")
    # by role: the vectors are the first element of what the function returns
    rets_ = [r.value for r in ast.walk(sv) if isinstance(r, ast.Return) and r.value is not None]
    first_ = rets_[-1].elts[0] if rets_ and isinstance(rets_[-1], ast.Tuple) and rets_[-1].elts else (rets_[-1] if rets_ else None)
    if not isinstance(first_, ast.Name):
        raise AnalysisError("R02f: Primitive._get_smallest_vectors does not return its vectors through a local")
    got = ty.env.get(first_.id)
    rep.instance("R02f", CELLS, "Primitive._get_smallest_vectors", f"svecs : {frames.show(got)}", not problems and got is not None and frames.same_axis(got[-1], LAT("p", "+")) is not False,
                 (problems[0].message if problems else f"svecs are typed {frames.show(got)}") + ": the shortest vectors are not expressed in primitive-cell coordinates, so the phase 2 pi q.s is wrong whenever inv(primitive matrix) is not symmetric (non-uniform supercells of centred lattices, non-symmetric supercell matrices)", line=(problems[0].node.lineno if problems else sv.lineno))
    # ---- R02e ------------------------------------------------------------
    tree = core.parse(QP)
    conv = [n_ for n_ in ast.walk(tree) if isinstance(n_, ast.Assign) and "np.sqrt" in core.src(n_.value) and "np.sign" in core.src(n_.value)]
    okc = bool(conv) and all(symalg.same(symalg.open_expr(core.src(c.value)), symalg.open_expr("np.sqrt(abs(X)) * np.sign(X) * self._factor").subs(sp.Symbol("X"), symalg.open_expr(core.src([a for a in ast.walk(c.value) if isinstance(a, ast.Call) and core.src(a.func) == "np.sign"][0].args[0]))))[0] for c in conv)
    rep.instance("R02e", QP, "QpointsPhonon", f"{len(conv)} conversion site(s): sign(e) sqrt|e| factor", okc, "frequencies are not sign(e) sqrt|e| times the unit factor", line=conv[0].lineno if conv else 0)
    rep.note("Not decided: that svecs are the minimum-image vectors (C05), equality with a closed-form crystal, NAC paths (C08).")



def _r02h(rep):
    """The shortest-vector kernels take the reduced basis and the integer change of basis as column vectors: each is the
    transpose of what ShortestPairs._transform_cell_basis computes, exactly once on the way to every call site."""
    CELLS = "phonopy/structure/cells.py"
    rep.rule("R02h", "orientation of the matrices handed to the shortest-vector kernels: the reduced basis (rows = basis vectors from get_reduced_bases) and the integer matrix rint(inv(trans_mat)) reach gsv_set_smallest_vectors_dense / _sparse transposed exactly once, counting transpositions inside _transform_cell_basis and at the call site, at all call sites alike", 6)

    def peel(e):
        par = 0
        while True:
            if isinstance(e, ast.Call) and core.src(e.func) in ("np.array", "np.asarray", "np.ascontiguousarray") and e.args:
                e = e.args[0]
            elif isinstance(e, ast.Call) and isinstance(e.func, ast.Attribute) and e.func.attr in ("copy", "astype"):
                e = e.func.value
            elif isinstance(e, ast.Attribute) and e.attr == "T":
                e, par = e.value, par ^ 1
            elif isinstance(e, ast.Call) and core.src(e.func) == "np.transpose" and len(e.args) == 1:
                e, par = e.args[0], par ^ 1
            else:
                return e, par

    tcb = core.find_def(CELLS, "ShortestPairs._transform_cell_basis")
    # roles inside the producer: the reduced basis comes from get_reduced_bases, the integer matrix from rint(inv(.))
    roles = {}
    for st in ast.walk(tcb):
        if isinstance(st, ast.Assign) and len(st.targets) == 1 and isinstance(st.targets[0], ast.Name):
            v = core.src(st.value)
            if "get_reduced_bases(" in v:
                roles[st.targets[0].id] = "reduced basis"
            elif v.startswith("np.rint(") and ".astype(" in v:
                inner = st.value
                while isinstance(inner, ast.Call) and not core.src(inner.func) == "np.rint":
                    inner = inner.func.value if isinstance(inner.func, ast.Attribute) else inner.args[0]
                arg = inner.args[0] if isinstance(inner, ast.Call) and inner.args else None
                arg = core.resolve_name(tcb, arg) if arg is not None else None
                if arg is not None and "np.linalg.inv(" in core.src(arg):
                    roles[st.targets[0].id] = "inverse change of basis"
    rets = [r.value for r in ast.walk(tcb) if isinstance(r, ast.Return) and r.value is not None]
    r0 = core.resolve_name(tcb, rets[-1]) if rets else None
    if not isinstance(r0, ast.Tuple) or set(roles.values()) != {"reduced basis", "inverse change of basis"}:
        raise AnalysisError("R02h: ShortestPairs._transform_cell_basis no longer returns a tuple with the reduced basis and the inverse change of basis")
    out_pos = {}
    for k, el in enumerate(r0.elts):
        root, par = peel(el)
        if isinstance(root, ast.Name) and root.id in roles:
            out_pos[k] = (roles[root.id], par)
    if len(out_pos) != 2:
        raise AnalysisError("R02h: the two matrices are not among the returned values")
    cls = core.find_def(CELLS, "ShortestPairs")
    n_sites = 0
    for m in [x for x in cls.body if isinstance(x, ast.FunctionDef)]:
        unp = [st for st in ast.walk(m) if isinstance(st, ast.Assign) and isinstance(st.targets[0], ast.Tuple) and isinstance(st.value, ast.Call) and core.src(st.value.func).endswith("_transform_cell_basis")]
        if not unp:
            continue
        local = {}
        for k, t in enumerate(unp[0].targets[0].elts):
            if k in out_pos and isinstance(t, ast.Name):
                local[t.id] = out_pos[k]
        for c in ast.walk(m):
            if isinstance(c, ast.Call) and "gsv_set_smallest_vectors" in core.src(c.func):
                for a in c.args:
                    root, par = peel(a)
                    if isinstance(root, ast.Name) and root.id in local:
                        role, p0 = local[root.id]
                        n_sites += 1
                        rep.instance("R02h", CELLS, f"ShortestPairs.{m.name}", f"{core.src(c.func).split('.')[-1]}: {role} passed as {core.norm(core.src(a), 60)}", (par ^ p0) == 1,
                                     f"the {role} reaches {core.src(c.func).split('.')[-1]} transposed {par + p0} times (inside _transform_cell_basis: {p0}, at the call: {par}); the kernel reads it as column vectors, so with an even count it searches with the wrong metric / maps the vectors back with the transposed matrix whenever the matrix is not symmetric (reordered or sheared reduced cells)", line=a.lineno)
    if n_sites < 6:
        raise AnalysisError(f"R02h: {n_sites} matrix arguments found at the shortest-vector call sites, 6 confirmed by reading")


_run_main = run


def run(rep: core.Report):
    from rules import shared_trunc

    _run_main(rep)
    shared_trunc.run(rep, "R02g")
    _r02h(rep)
    from rules import shared_sorted

    shared_sorted.run(rep, "R02j", ["phonopy/harmonic/dynamical_matrix.py", "phonopy/harmonic/dynmat_to_fc.py", "phonopy/structure/cells.py"])
    from rules import shared_bcast

    shared_bcast.run(rep, "R02i", [r for r in ["phonopy/harmonic/dynamical_matrix.py", "phonopy/harmonic/dynmat_to_fc.py", "phonopy/harmonic/force_constants.py"] if (core.REPO / r).is_file()])



# index-map typing for R02d: P primitive index, S supercell index, R supercell index of a representative
_ATTR = {"p2s_map": ("P", "R"), "s2p_map": ("S", "R"), "p2p_map": ("R", "P")}
_SUB = {("R", "S"), ("P", "P"), ("S", "S"), ("R", "R")}  # value set -> admissible index set


def _r02m(rep):
    """Positions handed to the shortest-vector search are wrapped in the basis the search works in."""
    rep.rule("R02m", "ShortestPairs: the supercell and primitive positions that the image search receives are wrapped to [-1/2, 1/2] (x - rint(x)) AFTER the change to the reduced basis (a small dataflow over 'wrapped / not wrapped': a product with the change-of-basis matrix unwraps; array copies keep the state; helpers are followed); wrapped before the change of basis the coordinates can reach +-1.5 in a reduced coordinate and the fixed set of 65 neighbouring images no longer contains the nearest one", 2)
    cls = core.find_def("phonopy/structure/cells.py", "ShortestPairs")
    methods = {m.name: m for m in cls.body if isinstance(m, ast.FunctionDef)}
    fn = methods.get("_transform_cell_basis")
    if fn is None:
        raise AnalysisError("anchor vanished: ShortestPairs._transform_cell_basis")
    COPY = {"np.array", "np.asarray", "np.ascontiguousarray", "np.copy"}

    def run_fn(f, binding, depth=0):
        env = dict(binding)

        def st_of(e):
            if isinstance(e, ast.Name):
                return env.get(e.id, "N")
            if isinstance(e, ast.Call):
                fs = core.src(e.func)
                if fs in COPY and e.args:
                    return st_of(e.args[0])
                if isinstance(e.func, ast.Attribute) and e.func.attr in ("copy", "astype") and not fs.startswith("np."):
                    return st_of(e.func.value)
                if fs in ("np.dot", "np.matmul"):
                    return "N"
                name = e.func.attr if isinstance(e.func, ast.Attribute) and core.src(e.func.value) in ("self", "ShortestPairs") else None
                if name in methods and depth < 3:
                    callee = methods[name]
                    ps = [a.arg for a in callee.args.args if a.arg != "self"]
                    return run_fn(callee, {p_: st_of(a) for p_, a in zip(ps, e.args)}, depth + 1)
                return "N"
            if isinstance(e, ast.BinOp) and isinstance(e.op, ast.Sub) and isinstance(e.right, ast.Call) and core.src(e.right.func) in ("np.rint", "np.round", "np.around") and e.right.args and core.src(e.right.args[0]) == core.src(e.left):
                return "W"
            if isinstance(e, ast.BinOp) and isinstance(e.op, ast.MatMult):
                return "N"
            if isinstance(e, ast.Attribute) and core.src(e.value) == "self":
                return "N"
            return "N"

        ret = None
        for stt in ast.walk(f):
            pass
        for stt in sorted([x for x in ast.walk(f) if isinstance(x, (ast.Assign, ast.AugAssign, ast.Return))], key=lambda x: x.lineno):
            if isinstance(stt, ast.Assign) and len(stt.targets) == 1 and isinstance(stt.targets[0], ast.Name):
                env[stt.targets[0].id] = st_of(stt.value)
            elif isinstance(stt, ast.AugAssign) and isinstance(stt.target, ast.Name):
                if isinstance(stt.op, ast.Sub) and isinstance(stt.value, ast.Call) and core.src(stt.value.func) in ("np.rint", "np.round", "np.around") and stt.value.args and core.src(stt.value.args[0]) == stt.target.id:
                    env[stt.target.id] = "W"
                else:
                    env[stt.target.id] = "N"
            elif isinstance(stt, ast.Return) and stt.value is not None and core.enclosing_function(stt) is f:
                ret = [st_of(x) for x in stt.value.elts] if isinstance(stt.value, ast.Tuple) else st_of(stt.value)
        return ret

    ret = run_fn(fn, {})
    rets = [r.value for r in ast.walk(fn) if isinstance(r, ast.Return) and isinstance(r.value, ast.Tuple)]
    if not isinstance(ret, list) or len(rets) != 1:
        raise AnalysisError("R02m: _transform_cell_basis no longer returns its tuple of arrays")
    names = [core.src(x) for x in rets[0].elts]
    n = 0
    for nm, stt in zip(names, ret):
        if "frac" in nm or "pos" in nm:
            n += 1
            rep.instance("R02m", "phonopy/structure/cells.py", "ShortestPairs._transform_cell_basis", f"{nm}: wrapped to [-1/2, 1/2] in the reduced basis", stt == "W",
                         f"'{nm}' reaches the image search without a final wrap in the reduced basis (the wrap is applied before the change of basis, or not at all): for supercell lattices whose reduced basis differs from the given one (acute rhombohedral cells) the pair differences leave the range covered by the 65 images, a longer periodic image is returned as the shortest vector, and D(q) has wrong phases at generic q", line=rets[0].lineno)
    if n < 2:
        raise AnalysisError("R02m: the supercell and primitive positions are no longer among what _transform_cell_basis returns")


def _r02k(rep):
    """Consumers of the dense shortest-vector storage read exactly m vectors from the address of the pair."""
    rep.rule("R02k", "dense shortest-vector storage is (multiplicity m, address) per atom pair: a consumer takes the m vectors svecs[address : address + m] of a pair; a segmented reduction over the addresses alone (np.add.reduceat(x, addresses)) ends each segment at the NEXT address in the flattened order, which is the same only for storage packed without gaps in exactly that order -- not part of the format (sparse_to_dense_svecs may pad), and unused slots then enter the phase factor", 1)
    n = 0
    for rel in (PYDM, "phonopy/harmonic/dynmat_to_fc.py", "phonopy/harmonic/derivative_dynmat.py"):
        tree = core.parse(rel)
        for fn in [x for x in ast.walk(tree) if isinstance(x, ast.FunctionDef)]:
            if "multi" not in core.src(fn):
                continue
            for c in ast.walk(fn):
                if core.enclosing_function(c) is not fn:
                    continue
                if isinstance(c, ast.Call) and core.src(c.func).endswith(".reduceat") and len(c.args) >= 2 and "multi" in core.src(core.resolve_name(fn, c.args[1])):
                    n += 1
                    rep.instance("R02k", rel, core.qualname_of(fn), core.norm(core.src(c), 80), False,
                                 f"'{core.norm(core.src(c), 70)}' sums each pair's phases from its address up to the next pair's address, not over its own m vectors", line=c.lineno)
                # the explicit form: a slice [adrs : adrs + m] of the vectors
                if isinstance(c, ast.Subscript) and isinstance(c.slice, ast.Slice) and c.slice.lower is not None and c.slice.upper is not None and isinstance(c.slice.upper, ast.BinOp) and isinstance(c.slice.upper.op, ast.Add) and core.src(c.slice.lower) in (core.src(c.slice.upper.left), core.src(c.slice.upper.right)) and "svecs" in core.src(c.value):
                    n += 1
                    rep.instance("R02k", rel, core.qualname_of(fn), core.norm(core.src(c), 80), True, "", line=c.lineno)
    if n < 1:
        raise AnalysisError("R02k: no consumer of the dense shortest vectors found in the Python routes (svecs[adrs : adrs + m] expected)")


def _maptype(e, env, rel, depth=0):
    """(domain, codomain) of an index map, ('val', set) of an index value, or None when it cannot be typed"""
    if isinstance(e, ast.Name):
        if e.id in env:
            v = env[e.id]
            return _maptype(v, env, rel, depth + 1) if isinstance(v, ast.AST) and depth < 6 else (v if not isinstance(v, ast.AST) else None)
        return _ATTR.get(e.id) or _ATTR.get(e.id.lstrip("_"))
    if isinstance(e, ast.Attribute):
        return _ATTR.get(e.attr) or _ATTR.get(e.attr.lstrip("_"))
    if isinstance(e, ast.Call):
        f = core.src(e.func)
        if f in ("np.array", "np.asarray", "np.ascontiguousarray", "list", "tuple") and e.args:
            return _maptype(e.args[0], env, rel, depth)
        if f == "np.arange" and len(e.args) == 1:
            a = e.args[0]
            if isinstance(a, ast.Call) and core.src(a.func) == "len" and a.args:
                m = _maptype(a.args[0], env, rel, depth)
                if m and m[0] != "val":
                    return (m[0], m[0])
            return None
        if f == "np.unique" and e.args and not e.keywords:
            a = _maptype(e.args[0], env, rel, depth)
            if a and a[0] != "val":
                return (f"rank among the sorted values of a {a[0]}->{a[1]} map", a[1])
            return None
        if f == "np.searchsorted" and len(e.args) >= 2:
            a, v = _maptype(e.args[0], env, rel, depth), _maptype(e.args[1], env, rel, depth)
            if a and v and a[0] != "val" and v[0] != "val":
                return (v[0], f"rank of the value among the sorted entries of a {a[0]}->{a[1]} map")
            return None
        if isinstance(e.func, ast.Name) and depth < 4:
            try:
                callee = core.find_def(rel, e.func.id)
            except AnalysisError:
                return None
            if isinstance(callee, ast.FunctionDef):
                cenv = {}
                for p_, a_ in zip(callee.args.args, e.args):
                    cenv[p_.arg] = a_ if isinstance(a_, ast.Attribute) else env.get(getattr(a_, "id", None), a_)
                for st in ast.walk(callee):
                    if isinstance(st, ast.Assign) and len(st.targets) == 1 and isinstance(st.targets[0], ast.Name):
                        cenv.setdefault(st.targets[0].id, st.value)
                rets = [r.value for r in ast.walk(callee) if isinstance(r, ast.Return) and r.value is not None]
                if len(rets) == 1:
                    return _maptype(rets[0], cenv, rel, depth + 1)
        return None
    if isinstance(e, ast.DictComp) and len(e.generators) == 1:
        g = e.generators[0]
        if isinstance(g.iter, ast.Call) and core.src(g.iter.func) == "enumerate" and g.iter.args and isinstance(g.target, ast.Tuple) and len(g.target.elts) == 2:
            m = _maptype(g.iter.args[0], env, rel, depth)
            if m and m[0] != "val" and core.src(e.key) == core.src(g.target.elts[1]) and core.src(e.value) == core.src(g.target.elts[0]):
                return (m[1], m[0])  # the inverse map
        return None
    if isinstance(e, ast.ListComp) and len(e.generators) == 1 and not e.generators[0].ifs:
        g = e.generators[0]
        dom = None
        if isinstance(g.iter, ast.Call) and core.src(g.iter.func) == "range" and len(g.iter.args) == 1 and isinstance(g.iter.args[0], ast.Call) and core.src(g.iter.args[0].func) == "len":
            m = _maptype(g.iter.args[0].args[0], env, rel, depth)
            if m and m[0] != "val" and isinstance(g.target, ast.Name):
                dom = m[0]
                env2 = dict(env)
                env2[g.target.id] = ("val", dom)
        elif isinstance(g.target, ast.Name):
            m = _maptype(g.iter, env, rel, depth)  # for x in N: x is a value of N
            if m and m[0] != "val":
                dom = m[0]
                env2 = dict(env)
                env2[g.target.id] = ("val", m[1])
        if dom is None:
            return None
        v = _maptype(e.elt, env2, rel, depth)
        return (dom, v[1]) if v and v[0] == "val" else None
    if isinstance(e, ast.Subscript) and isinstance(e.value, ast.Call) and core.src(e.value.func) == "np.unique" and any(k.arg == "return_inverse" for k in e.value.keywords) and isinstance(e.slice, ast.Constant) and e.slice.value == 1 and e.value.args:
        a = _maptype(e.value.args[0], env, rel, depth)
        if a and a[0] != "val":
            return (a[0], f"rank of the value among the sorted entries of a {a[0]}->{a[1]} map")
        return None
    if isinstance(e, ast.Subscript):
        m, ix = _maptype(e.value, env, rel, depth), _maptype(e.slice, env, rel, depth)
        if m and ix and m[0] != "val" and ix[0] == "val":
            if (ix[1], m[0]) in _SUB or ix[1] == m[0]:
                return ("val", m[1])
            return ("val", f"{m[0]}->{m[1]} map indexed by a {ix[1]} value")
        return None
    return None


def _r02d(rep):
    """The two maps handed to the kernel, typed: the kernel tests s2p[k] == p2s[j] and reads row p2s[i]."""
    fm = core.find_def(PYDM, "_get_fc_elements_mapping")
    test = [n_ for n_ in fm.body if isinstance(n_, ast.If)]
    if len(test) != 1:
        raise AnalysisError("R02d: _get_fc_elements_mapping lost its layout test")
    tt = core.src(test[0].test).replace(" ", "")
    m_ = re.fullmatch(r"(\w+)\.shape\[0\](==|!=)(\w+)\.shape\[1\]", tt)
    if not m_ or m_.group(1) != m_.group(3):
        raise AnalysisError(f"R02d: layout test '{tt}' is not a comparison of the first two extents of the force constants")
    full_body = test[0].body if m_.group(2) == "==" else test[0].orelse
    comp_body = test[0].orelse if m_.group(2) == "==" else test[0].body
    env = {}
    for st in ast.walk(fm):
        if isinstance(st, ast.Assign) and len(st.targets) == 1 and isinstance(st.targets[0], ast.Name):
            env.setdefault(st.targets[0].id, st.value)
    for nm in ("p2s_map", "s2p_map"):  # the function's own (mis)use of these names is typed from what they are bound to
        if nm in env:
            t_ = _maptype(env[nm], {}, PYDM)
            if t_ != _ATTR[nm]:
                raise AnalysisError(f"R02d: local '{nm}' of _get_fc_elements_mapping is bound to something typed {t_}")

    def ret_of(body, what):
        rs = [r.value for b in body for r in ast.walk(b) if isinstance(r, ast.Return)]
        if len(rs) != 1 or not isinstance(rs[0], ast.Tuple) or len(rs[0].elts) != 2:
            raise AnalysisError(f"R02d: the {what} arm of _get_fc_elements_mapping does not return a pair of maps")
        return [_maptype(x, env, PYDM) for x in rs[0].elts]

    for what, body, want, text in (("full", full_body, [("P", "R"), ("S", "R")], "(p2s_map, s2p_map)"), ("compact", comp_body, [("P", "P"), ("S", "P")], "(identity on primitive indices, primitive index of every supercell atom)")):
        got = ret_of(body, what)
        if any(g is None for g in got):
            raise AnalysisError(f"R02d: cannot type the maps of the {what} layout ({got})")
        rep.instance("R02d", PYDM, "_get_fc_elements_mapping", f"{what} layout: {text}; typed {got}", got == want,
                     f"in the {what} layout the maps handed to the kernel are typed {got[0][0]}->{got[0][1]} and {got[1][0]}->{got[1][1]} instead of {want[0][0]}->{want[0][1]} and {want[1][0]}->{want[1][1]} (P primitive index, S supercell index, R representative): the kernel's test s2p[k] == p2s[j] and its row p2s[i] no longer select the images of primitive atom j and the row of atom i — a position found by searching p2s_map in sorted order is a primitive index only while p2s_map is ascending, which Primitive(positions_to_reorder=...) does not keep", line=fm.lineno)
    init = core.find_def(PYDM, "DynamicalMatrix.__init__")
    st_ = [a for a in ast.walk(init) if isinstance(a, ast.Assign) and core.src(a.targets[0]) == "self._s2pp_map"]
    if len(st_) != 1:
        raise AnalysisError("R02d: DynamicalMatrix.__init__ no longer sets self._s2pp_map once")
    ienv = {}
    for a in ast.walk(init):
        if isinstance(a, ast.Assign) and len(a.targets) == 1 and isinstance(a.targets[0], ast.Name):
            ienv.setdefault(a.targets[0].id, a.value)
    got = _maptype(st_[0].value, ienv, PYDM)
    if got is None:
        raise AnalysisError(f"R02d: cannot type self._s2pp_map = {core.src(st_[0].value)[:80]}")
    rep.instance("R02d", PYDM, "DynamicalMatrix.__init__", f"self._s2pp_map typed {got}", got == ("S", "P"), f"self._s2pp_map is typed {got[0]}->{got[1]}, not supercell atom -> primitive index", line=st_[0].lineno)


def selftest():
    V = []
    b = lambda name, file, old, new, rule, expect="", **kw: V.append(dict(name=name, kind="break", file=file, old=old, new=new, rule=rule, expect=expect, **kw))
    n = lambda name, file, old, new, **kw: V.append(dict(name=name, kind="neutral", file=file, old=old, new=new, **kw))
    PYDM_ = "phonopy/harmonic/dynamical_matrix.py"
    V.append(dict(name="per-q matrix written into a work array allocated once", kind="break", rule="R02y.outbuf", expect="_run_py_dynamical_matrix", edits=[
        dict(file=PYDM_, old="        self._dynamical_matrix = None\n        self._force_constants = None\n", new="        self._dynamical_matrix = None\n        self._dm_work = np.zeros((len(primitive) * 3, len(primitive) * 3), dtype=self._dtype_complex)\n        self._force_constants = None\n"),
        dict(file=PYDM_, old="        self._dynamical_matrix = (dm + dm.conj().transpose()) / 2", new="        self._dm_work[:] = (dm + dm.conj().transpose()) / 2\n        self._dynamical_matrix = self._dm_work"),
    ]))
    V.append(dict(name="per-q matrix copied out of a work array allocated once", kind="neutral", edits=[
        dict(file=PYDM_, old="        self._dynamical_matrix = None\n        self._force_constants = None\n", new="        self._dynamical_matrix = None\n        self._dm_work = np.zeros((len(primitive) * 3, len(primitive) * 3), dtype=self._dtype_complex)\n        self._force_constants = None\n"),
        dict(file=PYDM_, old="        self._dynamical_matrix = (dm + dm.conj().transpose()) / 2", new="        self._dm_work[:] = (dm + dm.conj().transpose()) / 2\n        self._dynamical_matrix = self._dm_work.copy()"),
    ]))
    b("factory rounds the array the new object holds, i.e. possibly the caller's", PYDM_, "        dm.nac_params = nac_params\n    return dm\n", "        dm.nac_params = nac_params\n    if frequency_scale_factor is None and decimals is not None:\n        fc = dm.force_constants\n        fc[:] = fc.round(decimals=decimals)\n    return dm\n", "R02y.ctoralias", "get_dynamical_matrix")
    n("factory rounds a copy of what the new object holds", PYDM_, "        dm.nac_params = nac_params\n    return dm\n", "        dm.nac_params = nac_params\n    if frequency_scale_factor is None and decimals is not None:\n        fc = np.array(dm.force_constants)\n        fc[:] = fc.round(decimals=decimals)\n    return dm\n")
    b("positions wrapped before the change to the reduced basis", "phonopy/structure/cells.py", "        supercell_fracs = np.dot(self._supercell_pos, trans_mat)\n        supercell_fracs -= np.rint(supercell_fracs)\n", "        supercell_fracs = np.dot(self._supercell_pos - np.rint(self._supercell_pos), trans_mat)\n", "R02m", "_transform_cell_basis")
    b("forward phase sign", DYN, "            phase += q[m] * svecs[adrs + l][m];", "            phase -= q[m] * svecs[adrs + l][m];", "R02a", "get_dm")
    b("pair addressing transposed", DYN, "    i_pair = k * num_patom + i;\n    m_pair = multi[i_pair][0];\n    adrs = multi[i_pair][1];\n\n    for (l = 0; l < m_pair; l++) {\n        phase = 0;", "    i_pair = i * num_patom + k;\n    m_pair = multi[i_pair][0];\n    adrs = multi[i_pair][1];\n\n    for (l = 0; l < m_pair; l++) {\n        phase = 0;", "R02a", "get_dm")
    b("image selection compares with i", DYN, "        if (s2p_map[k] != p2s_map[j]) {", "        if (s2p_map[k] != p2s_map[i]) {", "R02b", "get_dynmat_ij")
    b("mass factor uses one mass", DYN, "    mass_sqrt = sqrt(mass[i] * mass[j]);", "    mass_sqrt = sqrt(mass[i] * mass[i]);", "R02a", "mass_sqrt")
    b("python reference averages once too often", PYDM, "                        dm_local += fc_elem[k] * phase_factor / sqrt_mm / m", "                        dm_local += fc_elem[k] * phase_factor / sqrt_mm / m / m", "R02c", "_run_py_dynamical_matrix")
    b("compact mapping hands supercell indices", PYDM, "            [p2p_map[s2p_map[i]] for i in range(len(s2p_map))], dtype=\"int64\"", "            [s2p_map[i] for i in range(len(s2p_map))], dtype=\"int64\"", "R02d", "_get_fc_elements_mapping")
    b("shortest vectors converted with inv(primitive matrix) untransposed", "phonopy/structure/cells.py", "        trans_mat_float = np.dot(supercell_bases, np.linalg.inv(primitive_bases))", "        trans_mat_float = np.linalg.inv(self._primitive_matrix)", "R02f", "_get_smallest_vectors")
    n("image selection written positively", DYN, "        if (s2p_map[k] != p2s_map[j]) {\n            continue;\n        }\n        get_dm(dm, num_patom, num_satom, fc, q, svecs, multi, p2s_map,\n               charge_sum, i, j, k);", "        if (s2p_map[k] == p2s_map[j]) {\n            get_dm(dm, num_patom, num_satom, fc, q, svecs, multi, p2s_map,\n                   charge_sum, i, j, k);\n        }")
    n("forward phase accumulated with 2 pi inside", DYN, "            phase += q[m] * svecs[adrs + l][m];\n        }\n        cos_phase += cos(phase * 2 * PI) / m_pair;\n        sin_phase += sin(phase * 2 * PI) / m_pair;", "            phase += 2 * PI * q[m] * svecs[adrs + l][m];\n        }\n        cos_phase += cos(phase) / m_pair;\n        sin_phase += sin(phase) / m_pair;")
    b("sparse shortest vectors: reduced basis passed untransposed", "phonopy/structure/cells.py", "            np.array(reduced_bases.T, dtype=\"double\", order=\"C\"),\n            np.array(trans_mat_inv.T, dtype=\"intc\", order=\"C\"),", "            np.array(reduced_bases, dtype=\"double\", order=\"C\"),\n            np.array(trans_mat_inv.T, dtype=\"intc\", order=\"C\"),", "R02h", "reduced basis")
    from rules import shared_trunc

    shared_trunc.variants(b, None, "R02g")
    n("compact map through a value loop and an inverse table", PYDM, "        s2pp_map = np.array(\n            [p2p_map[s2p_map[i]] for i in range(len(s2p_map))], dtype=\"int64\"\n        )", "        where = {s: k for k, s in enumerate(p2s_map)}\n        s2pp_map = np.array([where[s] for s in s2p_map], dtype=\"int64\")")
    b("compact map by position in sorted order", PYDM, "        s2pp_map = np.array(\n            [p2p_map[s2p_map[i]] for i in range(len(s2p_map))], dtype=\"int64\"\n        )", "        s2pp_map = np.array(np.searchsorted(p2s_map, s2p_map), dtype=\"int64\")", "R02d", "compact")
    return V
