"""Shared rule (C12 R12l, C11 R11s, C14 R14o): methods that only show results do not change them.

``plot``, ``write_*``, ``get_*``, ``show_*`` methods are observers: calling them must not change what a later
``get_*`` / ``write_*`` returns.  numpy makes that easy to break: ``curve = gamma[:, i]`` is a view, and a display-only
adjustment ``curve[j] = curve[k]`` writes into the stored result.  The rule follows, inside a class, arrays reachable
from ``self`` attributes and from the method's parameters through views (subscripts, ``.T``, ``reshape``, ``ravel``,
``np.asarray``, tuple unpacking, iteration, ``zip``) -- ``.copy()``, ``np.array(...)`` and arithmetic make a value
fresh -- and reports an in-place write (``x[...] = ``, ``x op= ``, ``x.sort()`` / ``fill``) into such an array in an
observer, directly or through a helper method of the class that writes into its parameter.
"""

from __future__ import annotations

import ast

from engine import core
from engine.core import AnalysisError

OBSERVER_PREFIXES = ("plot", "_plot", "write", "_write", "get_", "show", "_show", "__str__", "__repr__")
FRESH_CALLS = {"np.array", "np.copy", "copy.copy", "copy.deepcopy", "np.zeros_like", "np.ones_like", "np.empty_like", "list", "np.abs", "np.sqrt", "np.sort", "sorted", "np.dot", "np.sum", "float", "int", "len", "range"}
VIEW_METHODS = {"reshape", "ravel", "view", "squeeze", "swapaxes", "transpose"}
MUT_METHODS = {"sort", "fill", "resize", "put", "partition"}


def _roots(e, env):
    """sources ('self.<attr>' or 'param:<name>') that the value of e may be a view of"""
    if isinstance(e, ast.Name):
        return set(env.get(e.id, set()))
    if isinstance(e, ast.Attribute):
        if core.src(e.value) == "self":
            return {"self." + e.attr}
        if e.attr in ("T", "real", "imag", "flat"):
            return _roots(e.value, env)
        return set()  # a property of another object (cell.positions, ...) may be computed: not followed
    if isinstance(e, ast.Subscript):
        return _roots(e.value, env)
    if isinstance(e, ast.Starred):
        return _roots(e.value, env)
    if isinstance(e, (ast.Tuple, ast.List)):
        out = set()
        for x in e.elts:
            out |= _roots(x, env)
        return out
    if isinstance(e, ast.IfExp):
        return _roots(e.body, env) | _roots(e.orelse, env)
    if isinstance(e, ast.Call):
        f = core.src(e.func)
        if isinstance(e.func, ast.Attribute) and e.func.attr == "copy":
            return set()
        if f in FRESH_CALLS:
            return set()
        if f in ("np.asarray", "np.ascontiguousarray", "np.asanyarray", "np.transpose", "np.ravel", "np.reshape", "np.squeeze", "np.atleast_2d", "np.atleast_1d") and e.args:
            return _roots(e.args[0], env)
        if f in ("zip", "enumerate", "reversed", "iter") and e.args:
            out = set()
            for a in e.args:
                out |= _roots(a, env)
            return out
        if isinstance(e.func, ast.Attribute) and e.func.attr in VIEW_METHODS:
            return _roots(e.func.value, env)
        return set()
    return set()


def _bind(target, roots, env):
    if isinstance(target, ast.Name):
        env[target.id] = set(roots)
    elif isinstance(target, (ast.Tuple, ast.List)):
        for t in target.elts:
            _bind(t, roots, env)
    elif isinstance(target, ast.Starred):
        _bind(target.value, roots, env)


def _bind_iter(target, it, env):
    """for <target> in <it>: element-wise for zip / enumerate, otherwise every name of the target may view the iterable"""
    if isinstance(it, ast.Call) and core.src(it.func) == "enumerate" and it.args and isinstance(target, (ast.Tuple, ast.List)) and len(target.elts) == 2:
        _bind(target.elts[0], set(), env)
        _bind_iter(target.elts[1], it.args[0], env)
        return
    if isinstance(it, ast.Call) and core.src(it.func) == "zip" and isinstance(target, (ast.Tuple, ast.List)) and len(target.elts) == len(it.args):
        for t, a in zip(target.elts, it.args):
            _bind_iter(t, a, env)
        return
    if isinstance(it, ast.Call) and core.src(it.func) in ("range", "reversed") and it.args and core.src(it.func) == "range":
        _bind(target, set(), env)
        return
    _bind(target, _roots(it, env), env)


def summary(m, methods, depth=0, _cache=None):
    """(set of roots written in place by the method, with 'param:<name>' for its parameters; list of (node, roots))"""
    if _cache is None:
        _cache = {}
    key = (id(m), depth)
    if key in _cache:
        return _cache[key]
    env = {a.arg: {"param:" + a.arg} for a in m.args.args + m.args.kwonlyargs if a.arg != "self"}
    sites = []

    def visit(stmts):
        for st in stmts:
            if isinstance(st, ast.Assign):
                r = _roots(st.value, env)
                for t in st.targets:
                    if isinstance(t, ast.Subscript):
                        w = _roots(t.value, env)
                        if w:
                            sites.append((st, w))
                    else:
                        _bind(t, r, env)
            elif isinstance(st, ast.AugAssign):
                w = _roots(st.target.value if isinstance(st.target, ast.Subscript) else st.target, env)
                if w and not (isinstance(st.target, ast.Attribute)):
                    sites.append((st, w))
            elif isinstance(st, ast.For):
                _bind_iter(st.target, st.iter, env)
                visit(st.body)
                visit(st.orelse)
            elif isinstance(st, (ast.If, ast.While)):
                visit(st.body)
                visit(st.orelse)
            elif isinstance(st, ast.With):
                visit(st.body)
            elif isinstance(st, ast.Try):
                visit(st.body)
                for h in st.handlers:
                    visit(h.body)
                visit(st.finalbody)
            if isinstance(st, (ast.Expr, ast.Assign, ast.AugAssign, ast.Return)):
                for c in ast.walk(st):
                    if isinstance(c, ast.Call) and isinstance(c.func, ast.Attribute):
                        if c.func.attr in MUT_METHODS and core.src(c.func.value) not in ("np", "numpy"):
                            w = _roots(c.func.value, env)
                            if w:
                                sites.append((c, w))
                        if core.src(c.func.value) == "self" and c.func.attr in methods and methods[c.func.attr] is not m and depth < 2:
                            sub_w, _ = summary(methods[c.func.attr], methods, depth + 1, _cache)
                            callee = methods[c.func.attr]
                            ps = [a.arg for a in callee.args.args if a.arg != "self"]
                            for w_ in sub_w:
                                if w_.startswith("param:") and w_[6:] in ps:
                                    k = ps.index(w_[6:])
                                    arg = c.args[k] if k < len(c.args) else next((kw.value for kw in c.keywords if kw.arg == w_[6:]), None)
                                    if arg is not None:
                                        r = _roots(arg, env)
                                        if r:
                                            sites.append((c, r))
                                elif w_.startswith("self."):
                                    sites.append((c, {w_}))

    visit(m.body)
    written = set().union(*[w for _, w in sites]) if sites else set()
    _cache[key] = (written, sites)
    return _cache[key]


def scan(tree):
    out = []
    for cls in [n for n in tree.body if isinstance(n, ast.ClassDef)]:
        methods = {n.name: n for n in cls.body if isinstance(n, ast.FunctionDef)}
        cache = {}  # per class and scan: node identities are only stable while this tree is alive
        for name, m in methods.items():
            if not name.startswith(OBSERVER_PREFIXES) or any(core.src(d).endswith(".setter") for d in m.decorator_list):
                continue
            _, sites = summary(m, methods, 0, cache)
            out.append((cls.name, m, [(n, w) for n, w in sites if any(x.startswith("self.") or x.startswith("param:") for x in w)]))
    return out


_CONTROL = '''
class K:
    def get_values(self):
        return self._v
    def plot_bad(self, ax, data):
        (x, v) = data
        for i in range(3):
            curve = v[:, i]
            self._flatten(curve)
            ax.plot(x, curve)
    def plot_good(self, ax, data):
        (x, v) = data
        for curve in v.T.copy():
            self._flatten(curve)
            ax.plot(x, curve)
    def _flatten(self, curve):
        curve[0] = curve[1]
'''


def run(rep: core.Report, rid: str, scope: list[str], floor: int = 1):
    rep.rule(rid, "observers (plot / write / get / show methods) do not write in place into arrays reachable from self or from their arguments, directly or through a helper of the class; views (subscripts, .T, unpacking, iteration) are followed, copies are fresh", floor)
    ctrl = {m.name: bool(s) for _, m, s in scan(ast.parse(_CONTROL))}
    if ctrl.get("plot_bad") is not True or ctrl.get("plot_good") is not False:
        raise AnalysisError(f"{rid}: the rule no longer classifies its own two examples ({ctrl})")
    for rel in scope:
        for cname, m, sites in scan(core.parse(rel)):
            if not sites:
                rep.instance(rid, rel, f"{cname}.{m.name}", "no in-place write into stored or passed arrays", True, "", line=m.lineno, nontrivial=False)
            for node, w in sites:
                rep.instance(rid, rel, f"{cname}.{m.name}", core.norm(core.src(node), 90), False,
                             f"'{core.norm(core.src(node), 80)}' writes in place into an array that is a view of {sorted(w)}: showing the results changes them -- what get_* / write_* return afterwards differs from what was computed (e.g. the mode Grueneisen parameters near Gamma are replaced by the value at the display cutoff)", line=node.lineno)
