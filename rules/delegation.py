"""Anchor-scoped delegation: a property is also decided by the rules of the other properties on the code it is
anchored in.

The truth of property X depends on all the code X is anchored in (properties.jsonl: anchors.files).  Many rules
that constrain that code belong, by their subject, to another property: the cross-language table of C13 constrains
the call of the thermal-property kernel (C10), the frame typing of C14 the NAC classes (C08), the closed forms of C06
the inverse transform that C19 relies on, the closed forms of C02 .. C12 the kernels of C13.  Each of them is a
necessary condition of X as well: if the kernel receives a transposed array, X's numbers are wrong.  After a
property's own rules have run, the rule modules of the other properties that can produce instances in X's anchor
files (delegation_table.json, written by tools/gen_delegation.py from a run on the confirmed tree; a stale table
changes coverage, never a verdict) are evaluated on the current tree -- once per tree, the recorded instances are kept
under out/cache/deleg keyed by a digest of the repository's sources and the rule code -- and their instances *located
in X's anchor files* are added to X's report under the ids R<XX>x.<original id>.

  * a known finding of the owning property is reported there, not here;
  * an AnalysisError inside a delegated module is that property's business: what it produced before stands, the rest
    is listed under 'unknown';
  * VERIF_NO_DELEGATE=1 switches the mechanism off (self-test variants and the development surveys exercise a
    property's own rules).
"""

from __future__ import annotations

import json
import os

from engine import core

MODULES = ["c02", "c03", "c04", "c06", "c08", "c09", "c10", "c11", "c12", "c13", "c14", "c15", "c16", "c17", "c18", "c19", "c20"]
TABLE = core.VERIF / "delegation_table.json"


# code a property depends on although properties.jsonl does not list the file: one line of reason each
EXTRA = {
    "C19": ["c/dynmat.c"],  # the inverse transform behind DynmatToForceConstants (force constants rebuilt from eigen-solutions, correlation matrices)
    "C17": ["phonopy/structure/cells.py"],  # get_cell_matrix / get_cell_matrix_from_lattice orient the cell the LAMMPS interface writes and rotate its forces back
    "C12": ["phonopy/api_phonopy.py"],  # group velocities are configured and rebuilt by the Phonopy object
    "C15": ["phonopy/phonon/group_velocity.py", "phonopy/harmonic/derivative_dynmat.py"],  # the Phonopy object keeps one GroupVelocity (and its derivative object) across run_qpoints / run_mesh / run_band_structure: what a query leaves behind in it is history
    "C03": ["phonopy/harmonic/dynmat_to_fc.py"],  # the Gonze-Lee dynamical matrix is built from short-range force constants made by this class: its commensurate points decide the acoustic sum rule and the point-group invariance of D(q)
    "C06": ["phonopy/phonon/qpoints.py"],  # the documented forward step: run_qpoints(commensurate points, with_dynamical_matrices=True) feeds DynmatToForceConstants
    "C08": ["phonopy/harmonic/dynmat_to_fc.py"],  # the Gonze-Lee short-range force constants are made by DynmatToForceConstants from the commensurate points it generates
    "C14": ["phonopy/harmonic/dynamical_matrix.py", "c/dynmat.c", "phonopy/phonon/thermal_properties.py", "phonopy/phonon/dos.py"],  # + the consumers that are handed the mesh object: what they leave behind in it is what the next access route reports  # + the batch kernel itself: q-point lists go through its parallel loop, single q-points do not  # run_dynamical_matrix_solver_c is the batch solver behind run_qpoints / run_mesh / run_band_structure: the q-points reach the kernel through it
    "C09": ["phonopy/structure/symmetry.py", "phonopy/phonon/moment.py", "c/phonopy.c"],  # + the compiled thermal sums and tetrahedron DOS are mesh consumers
}


def anchors() -> dict:
    out = {}
    for line in (core.VERIF / "properties.jsonl").read_text().splitlines():
        if line.strip():
            d = json.loads(line)
            out[d["id"]] = set(d.get("anchors", {}).get("files", [])) | set(EXTRA.get(d["id"], []))
    return out


def apply(rep: core.Report, pid: str) -> None:
    if os.environ.get("VERIF_NO_DELEGATE") == "1":
        return
    files = anchors().get(pid, set())
    table = json.loads(TABLE.read_text()) if TABLE.is_file() else {}
    known = {(k["property"], k["rule"], k["file"], k["qualname"], k["construct"]) for k in core.load_known().get("findings", [])}
    used = []
    for mod in MODULES:
        if mod == pid.lower() or not (set(table.get(mod, [])) & files):
            continue
        res = core.module_items(mod, rep.tier)
        if res.get("error"):
            rep.unknown(f"delegated rules of {mod.upper()} stopped early: {res['error'][:160]}")
        n = 0
        for it in res["items"]:
            if it["file"] not in files:
                continue
            if not it["ok"] and (mod.upper(), it["rule"], it["file"], it["qualname"], it["construct"]) in known:
                continue
            rid = f"R{pid[1:]}x.{it['rule']}"
            if rid not in rep.rules:
                rep.rule(rid, f"[rule {it['rule']} of {mod.upper()} on the code {pid} is anchored in] {it['text']}", 0)
            rep.instance(rid, it["file"], it["qualname"], it["construct"], it["ok"], it["explanation"], it["line"])
            n += 1
        if n:
            used.append(f"{mod.upper()}: {n}")
    if used:
        rep.note("delegated instances in this property's anchor files -- " + ", ".join(used))
