"""C10 — thermal properties: closed forms, identities, finiteness (DESIGN §3 C10)."""

from __future__ import annotations

import ast

import sympy as sp

from engine import absint, cast, core, symalg
from engine.core import AnalysisError

PY = "phonopy/phonon/thermal_properties.py"
CF = "c/phonopy.c"

T = sp.Symbol("T", positive=True)
F = sp.Symbol("f", positive=True)
KB = sp.Symbol("Kb", positive=True)
U = sp.Symbol("u", positive=True)  # Boltzmann factor exp(-f/(Kb T)), in (0, 1)


def _py_call_hook(node: ast.Call, tr, env):
    # np.array(len(freqs) * [c])  ==  the constant c broadcast over the modes
    if core.src(node.func) in ("np.array", "numpy.array") and len(node.args) == 1:
        a = node.args[0]
        if (
            isinstance(a, ast.BinOp)
            and isinstance(a.op, ast.Mult)
            and isinstance(a.left, ast.Call)
            and core.src(a.left.func) == "len"
            and isinstance(a.right, ast.List)
            and len(a.right.elts) == 1
        ):
            return tr.expr(a.right.elts[0], env)
    # other spellings of a constant broadcast over the modes
    f = core.src(node.func)
    if f in ("np.full_like", "np.full") and len(node.args) >= 2:
        return tr.expr(node.args[1], env)
    if f in ("np.zeros_like", "np.zeros"):
        return tr.alg.const(0)
    if f in ("np.ones_like", "np.ones"):
        return tr.alg.const(1)
    return None


def _boltz(e):
    """Boltzmann-factor normal form: rewrite to exp, substitute f = -Kb T log(u)."""
    e = sp.sympify(e).rewrite(sp.exp)
    e = e.subs(F, -KB * T * sp.log(U))
    e = sp.expand_log(sp.simplify(e), force=True)
    e = sp.simplify(sp.together(sp.expand(e)))
    return e


def py_exprs(alg=None, names=None, only=None):
    out = {}
    for fn_name, key in (("mode_F", "F"), ("mode_S", "S"), ("mode_cv", "Cv"), ("mode_ZPE", "ZPE")):
        if only and key != only:
            continue
        fn = core.find_def(PY, fn_name)
        argn = [a.arg for a in fn.args.args]
        if argn[:3] != ["temp", "freqs", "classical"]:
            raise AnalysisError(f"{PY}::{fn_name}: signature changed to {argn}")
        tr = symalg.PyTranslator(
            names or {"temp": T, "freqs": F, "Kb": KB},
            call_hook=_py_call_hook,
            where=f"{PY}::{fn_name}",
            alg=alg,
        )
        br = tr.function(fn)
        out[key] = {
            "quantum": symalg.select(br, classical=False).expr,
            "classical": symalg.select(br, classical=True).expr,
            "line": fn.lineno,
            "name": fn_name,
        }
    return out


def c_exprs(alg=None, names=None, only=None):
    tu = cast.load(CF, symbolize=("KB",))
    out = {}
    for fn_name, key in (("get_free_energy", "F"), ("get_entropy", "S"), ("get_heat_capacity", "Cv")):
        if only and key != only:
            continue
        if fn_name not in tu.functions:
            raise AnalysisError(f"anchor vanished: {CF}::{fn_name}")
        fn = tu.functions[fn_name]
        pn = [p["name"] for p in cast.params(fn)]
        if pn != ["temperature", "f", "classical"]:
            raise AnalysisError(f"{CF}::{fn_name}: parameters changed to {pn}")
        tr = symalg.CTranslator(names or {"temperature": T, "f": F, "KB": KB}, where=f"{CF}::{fn_name}", alg=alg)
        br = tr.function(fn)
        out[key] = {
            "quantum": symalg.select(br, classical=False).expr,
            "classical": symalg.select(br, classical=True).expr,
            "line": tu.line(fn),
            "name": fn_name,
        }
    return out


def run(rep: core.Report):
    thorough = rep.tier == "thorough"
    rep.rule("R10a", "thermodynamic identities S=-dF/dT, Cv=T dS/dT, F=documented form hold for the source expressions (sympy normal form)", 10)
    rep.rule("R10b", "C and Python closed forms are the same function (F up to the f/2 zero-point split)", 6)
    rep.rule("R10c", "no NaN/inf from IEEE-754 evaluation of the expressions as written, over the stated (T, f) box (interval abstract interpretation)", 12)
    rep.rule("R10d", "every mode-selecting predicate in the thermal sums compares with the cutoff-frequency attribute", 5)
    rep.rule("R10e", "normalisation and unit chain identical on the C and Python routes; ZPE added exactly once on the C route", 6)
    rep.rule("R10g", "compiled kernel, whole reduction: thermal_props[3 t + c] grows by sum over q-points i and bands k of [T_t > 0][f_ik > cutoff] w_i F_c(T_t, f_ik) with F_0, F_1, F_2 = free energy, entropy, heat capacity and f_ik = freqs[i * num_bands + k] (closed form of a generic output cell by element-wise symbolic execution, including the scratch array and the final row reduction)", 3)
    rep.rule("R10f", "T=0 guard: evaluators use the harmonic forms only for t > 0 and ZPE/zero otherwise; C loop has the same guard", 4)
    rep.assume("T > 0, f > 0, Kb > 0 are real (sympy assumptions) for the identities")

    P = py_exprs()
    C = c_exprs()

    strategies = ("cancel", "simplify", "boltzmann")

    def oblige(rule, file, qn, name, expr, line):
        ok, how = symalg.is_zero(expr, strategies, boltz=_boltz)
        if ok and thorough and how != "boltzmann":
            ok2, how2 = symalg.is_zero(expr, ("boltzmann",), boltz=_boltz)
            how = f"{how}+{how2}" if ok2 else how
        rep.instance(
            rule, file, qn, name, ok,
            f"identity not established; residual after normalisation: {how}",
            line=line, sample={"obligation": name, "closed_by": how} if ok else None, obligation=True,
        )

    for lang, E, file in (("py", P, PY), ("c", C, CF)):
        for stat in ("quantum", "classical"):
            Fx, Sx, Cx = E["F"][stat], E["S"][stat], E["Cv"][stat]
            oblige("R10a", file, E["S"]["name"], f"[{stat}] S + dF/dT == 0", Sx + sp.diff(Fx, T), E["S"]["line"])
            oblige("R10a", file, E["Cv"]["name"], f"[{stat}] Cv - T dS/dT == 0", Cx - T * sp.diff(Sx, T), E["Cv"]["line"])
        # documented forms
        zp = F / 2 if lang == "py" else 0
        doc_q = KB * T * sp.log(1 - sp.exp(-F / (KB * T))) + zp
        doc_c = KB * T * sp.log(F / (KB * T))
        oblige("R10a", file, E["F"]["name"], "[quantum] F == documented hv/2 + kT ln(1 - exp(-hv/kT))" + ("" if lang == "py" else " (without hv/2, added as ZPE)"), E["F"]["quantum"] - doc_q, E["F"]["line"])
        oblige("R10a", file, E["F"]["name"], "[classical] F == kT ln(hv/kT)", E["F"]["classical"] - doc_c, E["F"]["line"])
    # ZPE function itself
    oblige("R10a", PY, "mode_ZPE", "[quantum] ZPE == f/2", P["ZPE"]["quantum"] - F / 2, P["ZPE"]["line"])
    oblige("R10a", PY, "mode_ZPE", "[classical] ZPE == 0", P["ZPE"]["classical"], P["ZPE"]["line"])

    # R10b cross-language
    for key in ("F", "S", "Cv"):
        for stat in ("quantum", "classical"):
            d = P[key][stat] - C[key][stat]
            if key == "F" and stat == "quantum":
                d = d - F / 2
            oblige("R10b", CF, C[key]["name"], f"[{stat}] C {C[key]['name']} == Python {P[key]['name']}" + (" - f/2" if key == "F" and stat == "quantum" else ""), d, C[key]["line"])

    _r10c(rep)
    _r10d(rep)
    _r10e(rep)
    _r10f(rep)
    _r10g(rep)
    _r10h(rep)
    from rules import shared_sorted

    shared_sorted.run(rep, "R10j", ["phonopy/phonon/thermal_properties.py"])
    from rules import shared_bandaxis

    shared_bandaxis.run(rep, "R10k", [("phonopy/phonon/thermal_properties.py", "ThermalPropertiesBase._calculate_thermal_property", {"func": 1})])
    from rules import shared_readonly, shared_freshwrite

    shared_readonly.run(rep, "R10m", ["phonopy/phonon/thermal_properties.py"], 3)
    shared_freshwrite.run(rep, "R10l", ["phonopy/phonon/thermal_properties.py"], 0)
    _r10n(rep)


# ---------------------------------------------------------------------------
# R10c: IEEE finiteness by interval abstract interpretation
# ---------------------------------------------------------------------------

# The (T, nu) box: 0.01 K .. 1e4 K, 1e-3 THz .. 1e3 THz.  h nu / kT reaches 4.8e6,
# far beyond the range of exp (709.78), which is the regime the property names.
T_BOX = (1e-2, 1e4)
NU_BOX_THZ = (1e-3, 1e3)


def _r10c(rep):
    units = symalg.fold_constants("phonopy/units.py")
    for k in ("Kb", "THzToEv"):
        if k not in units:
            raise AnalysisError(f"anchor vanished: phonopy/units.py::{k}")
    kb, thz2ev = units["Kb"], units["THzToEv"]
    fbox = (NU_BOX_THZ[0] * thz2ev, NU_BOX_THZ[1] * thz2ev)
    rep.assume(
        f"R10c box: T in [{T_BOX[0]}, {T_BOX[1]}] K, frequency in [{NU_BOX_THZ[0]}, {NU_BOX_THZ[1]}] THz "
        f"(h nu/kT from {fbox[0] / (kb * T_BOX[1]):.3g} to {fbox[1] / (kb * T_BOX[0]):.3g}); rounding ignored except at overflow/underflow/absorption thresholds"
    )
    for lang in ("py", "c"):
        for stat in ("quantum", "classical"):
            ev_by_fn = {}
            for key in ("F", "S", "Cv"):
                ev = absint.Events()
                alg = absint.IntervalAlg(ev)
                names_py = {
                    "temp": absint.Iv(*T_BOX, ev=ev),
                    "freqs": absint.Iv(*fbox, ev=ev),
                    "Kb": absint.Iv(kb, kb, ev=ev),
                }
                names_c = {
                    "temperature": absint.Iv(*T_BOX, ev=ev),
                    "f": absint.Iv(*fbox, ev=ev),
                    "KB": absint.Iv(kb, kb, ev=ev),
                }
                try:
                    E = py_exprs(alg, names_py, only=key) if lang == "py" else c_exprs(alg, names_c, only=key)
                except TypeError as e:
                    raise AnalysisError(f"interval semantics missing: {e}")
                v = E[key][stat]
                v = absint.Iv.lift(v)
                ok = v.finite()
                file = PY if lang == "py" else CF
                why = "; ".join(ev.items[:3])
                rep.instance(
                    "R10c", file, E[key]["name"], f"[{stat}] {E[key]['name']} finite and not NaN on the (T, f) box",
                    ok,
                    f"abstract value {v!r}: {why} — reached at the large h nu/kT corner (T={T_BOX[0]} K, nu={NU_BOX_THZ[1]} THz)",
                    line=E[key]["line"],
                    sample={"abstract_value": repr(v), "events": ev.items[:3]},
                )


# ---------------------------------------------------------------------------
# R10d: one mode filter
# ---------------------------------------------------------------------------

FREQ_NAMES = {"freqs", "self._frequencies", "f"}


def _r10d(rep):
    for cls in ("ThermalPropertiesBase", "ThermalProperties"):
        cdef = core.find_def(PY, cls)
        for node in ast.walk(cdef):
            if isinstance(node, ast.Compare) and len(node.ops) == 1 and isinstance(node.ops[0], (ast.Gt, ast.GtE, ast.Lt, ast.LtE)):
                l, r = core.src(node.left), core.src(node.comparators[0])
                if l in FREQ_NAMES or r in FREQ_NAMES:
                    other = r if l in FREQ_NAMES else l
                    fn = core.enclosing_function(node)
                    ok = other == "self._cutoff_frequency" and isinstance(node.ops[0], ast.Gt) and l in FREQ_NAMES
                    rep.instance(
                        "R10d", PY, core.qualname_of(node), core.src(node), ok,
                        "mode filter does not compare with self._cutoff_frequency: this sum selects a different set of modes than "
                        "_calculate_thermal_property and the C kernel (f > cutoff_frequency)",
                        line=node.lineno,
                    )
    # C side
    tu = cast.load(CF)
    fn = tu.functions.get("phpy_get_thermal_properties")
    if fn is None:
        raise AnalysisError("anchor vanished: phpy_get_thermal_properties")
    conds = kernel_path_conditions(fn)
    if not conds:
        raise AnalysisError("R10d: no accumulation found in phpy_get_thermal_properties")
    for c in conds[:1] if all(x == conds[0] for x in conds) else conds:
        fatoms = sorted(a for a in c if "f" in (a[0], a[2]) or a[0] == "?")
        rep.instance("R10d", CF, "phpy_get_thermal_properties", f"mode filter on the path to the accumulations: {fatoms}", fatoms == [("cutoff_frequency", "<", "f")],
                     "the C mode filter is not exactly 'f > cutoff_frequency': the kernel sums a different set of modes than the Python route (_calculate_thermal_property)", line=tu.line(fn))
    # the cutoff that reaches the kernel is the attribute (converted to eV like the frequencies)
    call = _phonoc_call(core.find_def(PY, "ThermalProperties._run_c_thermal_properties"), "thermal_properties")
    args = [core.src(a) for a in call.args]
    rep.instance("R10d", PY, "ThermalProperties._run_c_thermal_properties", f"phonoc.thermal_properties(..., {args[4] if len(args) > 4 else '?'}, ...)",
                 len(args) == 6 and args[4] == "self._cutoff_frequency" and args[2].split("[")[0] == "self._frequencies",
                 "the kernel does not receive self._frequencies / self._cutoff_frequency (both in eV)", line=call.lineno)
    # cutoff and frequencies are converted with the same factor
    init = core.find_def(PY, "ThermalPropertiesBase.__init__")
    def _factors(e):
        if isinstance(e, ast.BinOp) and isinstance(e.op, ast.Mult):
            return _factors(e.left) + _factors(e.right)
        return [core.src(e)]

    def _conversions(target):
        """how often the attribute is multiplied by THzToEv: product in an assignment, or in-place"""
        n_ = 0
        for s_ in ast.walk(init):
            if isinstance(s_, ast.Assign) and core.src(s_.targets[0]) == target and "THzToEv" in _factors(s_.value):
                n_ += 1
            if isinstance(s_, ast.AugAssign) and isinstance(s_.op, ast.Mult) and core.src(s_.target) == target and "THzToEv" in _factors(s_.value):
                n_ += 1
        return n_

    ok = _conversions("self._cutoff_frequency") == 1 and _conversions("self._frequencies") == 1
    rep.instance("R10d", PY, "ThermalPropertiesBase.__init__", "cutoff_frequency * THzToEv ; frequencies * THzToEv", ok,
                 "cutoff and frequencies are no longer converted to eV by the same factor THzToEv", line=init.lineno)


def _phonoc_call(fn, name):
    for n in ast.walk(fn):
        if isinstance(n, ast.Call) and core.src(n.func) == f"phonoc.{name}":
            return n
    raise AnalysisError(f"anchor vanished: phonoc.{name} call in {fn.name}")


# ---------------------------------------------------------------------------
# R10e: normalisation / units
# ---------------------------------------------------------------------------


def _r10e(rep):
    w = sp.Symbol("W", positive=True)
    ev2kj = sp.Symbol("EvTokJmol", positive=True)
    zpe = sp.Symbol("ZPE")
    # Python route: run_X returns sum / np.sum(self._weights) * EvTokJmol
    py_route = {}
    for meth, key in (("run_free_energy", "F"), ("run_entropy", "S"), ("run_heat_capacity", "Cv")):
        fn = core.find_def(PY, f"ThermalPropertiesBase.{meth}")
        rets = [s for s in ast.walk(fn) if isinstance(s, ast.Return)]
        if len(rets) != 1:
            raise AnalysisError(f"{meth}: expected one return")
        X = sp.Symbol("X")

        def hook(node, tr, env):
            if core.src(node) == "np.sum(self._weights)":
                return w
            return None

        # the local holding the weighted sum (whatever it is called): every name assigned in the method maps to X
        summed = {t.id: X for st in ast.walk(fn) if isinstance(st, ast.Assign) for t in st.targets if isinstance(t, ast.Name)}
        tr = symalg.PyTranslator({"EvTokJmol": ev2kj, **summed}, call_hook=hook, where=f"{PY}::{meth}")
        py_route[key] = tr.expr(rets[0].value, {})
        ok, how = symalg.is_zero(py_route[key] - X / w * ev2kj)
        rep.instance("R10e", PY, f"ThermalPropertiesBase.{meth}", core.src(rets[0]), ok,
                     f"return is not sum / sum(weights) * EvTokJmol ({how})", line=rets[0].lineno)
    # _run_py_thermal_properties: entropy and cv * 1000, fe * 1
    fn = core.find_def(PY, "ThermalProperties._run_py_thermal_properties")
    core.require_names(fn, ["fe", "entropy", "cv", "props"], f"{PY}::_run_py_thermal_properties")
    apps = {}
    for n in ast.walk(fn):
        if isinstance(n, ast.Call) and isinstance(n.func, ast.Attribute) and n.func.attr == "append" and len(n.args) == 1:
            apps[core.src(n.func.value)] = core.src(n.args[0])
    want = {"fe": "props[0]", "entropy": "props[1] * 1000", "cv": "props[2] * 1000"}
    same_apps = set(apps) == set(want) and all(symalg.same(symalg.open_expr(apps[k]), symalg.open_expr(want[k]))[0] for k in want)
    rep.instance("R10e", PY, "ThermalProperties._run_py_thermal_properties", core.norm(str(apps)), same_apps,
                 f"Python route scaling differs from {want}", line=fn.lineno)
    gp = core.find_def(PY, "ThermalProperties._get_py_thermal_properties")
    ret = [s for s in ast.walk(gp) if isinstance(s, ast.Return)][0]
    rep.instance("R10e", PY, "ThermalProperties._get_py_thermal_properties", core.src(ret),
                 isinstance(ret.value, ast.Tuple) and [[c.func.attr for c in ast.walk(e) if isinstance(c, ast.Call) and isinstance(c.func, ast.Attribute) and c.func.attr.startswith("run_")] for e in ret.value.elts] == [["run_free_energy"], ["run_entropy"], ["run_heat_capacity"]],
                 "order of (F, S, Cv) changed", line=ret.lineno)
    # C route
    fn = core.find_def(PY, "ThermalProperties._run_c_thermal_properties")
    core.require_names(fn, ["fe", "entropy", "cv", "props"], f"{PY}::_run_c_thermal_properties")
    stm = {core.src(s.targets[0]): s for s in fn.body if isinstance(s, ast.Assign) and len(s.targets) == 1}
    WSUM = ("np.sum(self._weights)", "self._weights.sum()", "float(np.sum(self._weights))", "sum(self._weights)", "np.sum(self._weights, dtype='double')")
    aug = [s for s in fn.body if isinstance(s, ast.AugAssign) and core.src(s.target) == "props"] + [s for s in fn.body if isinstance(s, ast.Assign) and core.src(s.targets[0]) == "props" and isinstance(s.value, ast.BinOp) and core.src(s.value.left) == "props"]
    ok_norm = len(aug) == 1 and isinstance(aug[0].op if isinstance(aug[0], ast.AugAssign) else aug[0].value.op, ast.Div) and core.src(aug[0].value if isinstance(aug[0], ast.AugAssign) else aug[0].value.right).replace('"', "'") in WSUM
    rep.instance("R10e", PY, "ThermalProperties._run_c_thermal_properties", "props /= np.sum(self._weights)", ok_norm,
                 "C route is not normalised by sum(weights) exactly once", line=fn.lineno)
    want_c = {
        "fe": "props[:, 0] * EvTokJmol + self._zero_point_energy",
        "entropy": "props[:, 1] * EvTokJmol * 1000",
        "cv": "props[:, 2] * EvTokJmol * 1000",
    }
    for k, wtxt in want_c.items():
        got = core.src(stm[k].value) if k in stm else None
        ok = False
        if got is not None:
            tr = symalg.PyTranslator({"EvTokJmol": ev2kj}, attr_hook=lambda t: zpe if t == "self._zero_point_energy" else None,
                                     sub_hook=lambda t, n, tr_, env: sp.Symbol(t.replace(" ", "")), where="_run_c_thermal_properties")
            tr2 = symalg.PyTranslator({"EvTokJmol": ev2kj}, attr_hook=lambda t: zpe if t == "self._zero_point_energy" else None,
                                      sub_hook=lambda t, n, tr_, env: sp.Symbol(t.replace(" ", "")), where="expected")
            ok, _ = symalg.is_zero(tr.expr(stm[k].value, {}) - tr2.expr(ast.parse(wtxt, mode="eval").body, {}))
        rep.instance("R10e", PY, "ThermalProperties._run_c_thermal_properties", f"{k} = {got}", ok,
                     f"C-route post-processing of {k} is not {wtxt} (ZPE must be added exactly once, S and Cv scaled by 1000)", line=stm[k].lineno if k in stm else fn.lineno)
    # ZPE itself: (sum_q w_q * sum_modes f / 2) / sum(w) * EvTokJmol  -- compared as an open term, so a
    # vectorised rewrite is accepted as long as the factors 1/2, 1/sum(w), EvTokJmol and the weight stay
    init = core.find_def(PY, "ThermalProperties.__init__")
    # the weight of a q-point in the zero-point sum: the loop variable bound from self._weights (by role, not by name)
    wname = None
    for lp in [x for x in ast.walk(init) if isinstance(x, ast.For)]:
        if isinstance(lp.iter, ast.Call) and core.src(lp.iter.func) == "zip" and isinstance(lp.target, ast.Tuple):
            for t_, a_ in zip(lp.target.elts, lp.iter.args):
                if core.src(a_) == "self._weights":
                    wname = core.src(t_)
    tr = symalg.OpenPyTranslator(where="ThermalProperties.__init__")
    env = tr.summary(init)
    zpe = env.get("self._zero_point_energy")
    cands = [v for v in tr.assigned.get("self._zero_point_energy", []) if v not in (sp.Symbol("None"),) and v != 0 and not getattr(v, "is_Number", False)]
    if not cands:
        raise AnalysisError("ThermalProperties.__init__: the zero-point energy assignment vanished")
    val = cands[-1]
    sumw = symalg.open_expr("np.sum(self._weights)")
    r = sp.simplify(val * 2 * sumw / sp.Symbol("EvTokJmol"))
    wsym = sp.Symbol(wname or "w")
    r1 = r.subs(wsym, 1)
    wdep = r.has(wsym) or r.has(sp.Symbol("self._weights"))
    shape_ok = isinstance(r1, sp.Function) or (r1.is_Mul and False)
    ok = wdep and shape_ok and not r.has(sp.Symbol("EvTokJmol")) and sp.simplify(r / r1) in (wsym, 1)
    rep.instance("R10e", PY, "ThermalProperties.__init__", "zero_point_energy == sum_q w_q sum_modes f / 2 / sum(w) * EvTokJmol", ok,
                 f"zero-point energy is not the weighted half-frequency sum normalised by sum(weights) in kJ/mol: after removing 1/2, 1/sum(w) and EvTokJmol the term is {core.norm(str(r), 120)}", line=init.lineno)
    # kernel accumulates value * weights[i] per q and sums rows serially
    tu = cast.load(CF)
    kfn = tu.functions["phpy_get_thermal_properties"]
    # symbolic execution of the innermost guarded block: each tp slot grows by <thermal function>(T_j, f) * weights[i]
    ifs = [x for x in cast.walk(kfn) if x.get("kind") == "IfStmt" and any(y.get("kind") == "CompoundAssignOperator" for y in cast.walk(x))]
    if not ifs:
        raise AnalysisError("phpy_get_thermal_properties: guarded accumulation block vanished")
    blk = cast.kids(ifs[0])[1]
    syms = {}

    def sub_hook(t, e, tr, env):
        return syms.setdefault(t, sp.Symbol(t))

    def call_hook(nm, args, tr, env):
        if nm in ("get_free_energy", "get_entropy", "get_heat_capacity"):
            return sp.Function(nm)(*[tr.expr(a, env) for a in args])
        return None

    names = {n: sp.Symbol(n) for n in ("i", "j", "k", "f", "classical", "num_temp", "num_bands", "cutoff_frequency")}
    ctr = symalg.CTranslator(names, call_hook=call_hook, sub_hook=sub_hook, where="phpy_get_thermal_properties")
    # locals assigned before the block inside the loop body (f = freqs[...]; a weight copied into a local) are inlined
    env = {}
    loops = [x for x in cast.walk(kfn) if x.get("kind") == "ForStmt" and any(y is ifs[0] for y in cast.walk(x))]
    for lp in loops:
        for st in cast.kids(cast.kids(lp)[-1]) if cast.kids(lp)[-1].get("kind") == "CompoundStmt" else []:
            if st.get("kind") == "BinaryOperator" and st.get("opcode") == "=" and cast.strip(cast.kids(st)[0]).get("kind") == "DeclRefExpr":
                nm = cast.strip(cast.kids(st)[0])["referencedDecl"]["name"]
                if nm != "f":
                    env[nm] = ctr.expr(cast.kids(st)[1], env)
    out = []
    ctr._block([blk], env, [], out)
    w = sp.Symbol("weights[i]")
    T = sp.Symbol("temperatures[j]")
    col_fn = {0: "get_free_energy", 1: "get_entropy", 2: "get_heat_capacity"}
    seen_cols = {}
    for key, val in env.items():
        if not key.startswith("tp["):
            continue
        idx = sp.sympify(key[3:-1], locals={n: sp.Symbol(n) for n in ("i", "j", "num_temp")})
        base = sp.expand(idx - (sp.Symbol("i") * sp.Symbol("num_temp") * 3 + sp.Symbol("j") * 3))
        delta = sp.expand(val - syms.get(key, sp.Symbol(key)))
        q = sp.simplify(delta / w)
        good = base.is_Integer and int(base) in col_fn and not q.has(w) and isinstance(q, sp.Function) and q.func.__name__ == col_fn[int(base)] and q.args[0] == T and q.args[1] == sp.Symbol("f")
        seen_cols[str(base)] = (good, key, str(delta))
    ok = len(seen_cols) == 3 and all(g for g, _, _ in seen_cols.values())
    badtxt = "; ".join(f"{k} += {d}" for g, k, d in seen_cols.values() if not g)
    rep.instance("R10e", CF, "phpy_get_thermal_properties", "columns 0,1,2 of tp[i, j, :] grow by F, S, Cv(T_j, f) * weights[i]", ok,
                 f"kernel does not accumulate F, S, Cv * weights[i] into columns 0, 1, 2 of row (i, j): {badtxt or sorted(seen_cols)}", line=tu.line(kfn))
    # units
    u = symalg.fold_constants("phonopy/units.py")
    for name, val in (("Kb", u["kb_J"] / u["EV"]), ("THzToEv", u["PlanckConstant"] * 1e12), ("EvTokJmol", u["EV"] / 1000 * u["Avogadro"])):
        rep.instance("R10e", "phonopy/units.py", name, f"{name} == folded definition", abs(u[name] - val) <= 1e-12 * abs(val),
                     f"{name} = {u.get(name)} differs from base-constant definition {val}")
    tuk = cast.load(CF)
    m = __import__("re").search(r"^#define\s+KB\s+([0-9.eE+-]+)", tuk.text, __import__("re").M)
    if not m:
        raise AnalysisError("anchor vanished: #define KB")
    kbc = float(m.group(1))
    rep.instance("R10e", CF, "KB", f"#define KB {m.group(1)}", abs(kbc - u["Kb"]) <= 1e-12 * u["Kb"],
                 f"C constant KB={kbc!r} differs from units.Kb={u['Kb']!r} (relative {abs(kbc - u['Kb']) / u['Kb']:.2e})")


# ---------------------------------------------------------------------------
# R10f: T = 0 guard
# ---------------------------------------------------------------------------


def _r10g(rep):
    from engine import celem

    tu = cast.load(CF, openmp=False)
    ex = celem.ElemExec(tu, where=CF, opaque={"get_free_energy", "get_entropy", "get_heat_capacity"})
    fn = tu.functions.get("phpy_get_thermal_properties")
    if fn is None:
        raise AnalysisError("anchor vanished: phpy_get_thermal_properties")
    top = cast.kids(cast.body(fn))
    loops = [x for x in top if x.get("kind") == "ForStmt"]
    last = loops[-1]
    st = celem.State(ex, "phpy_get_thermal_properties", {}, {}, 0)
    for p_ in cast.params(fn):
        qt = cast.qtype(p_)
        if "*" in qt or "[" in qt:
            st.alias[p_["name"]] = p_["name"]
        else:
            st.scalars[p_["name"]] = sp.Symbol(p_["name"], integer=True) if cast.is_int_type(qt) else sp.Symbol(p_["name"])
    st.block([x for x in top if x is not last])
    # the last nest adds row i of the scratch array to the output: run its innermost statement for the generic output
    # cell j = 3 t + c (c = 0, 1, 2) under the generic q-point loop
    nq, nt, nb = sp.Symbol("num_qpoints", integer=True), sp.Symbol("num_temp", integer=True), sp.Symbol("num_bands", integer=True)
    inner_loops = [x for x in cast.walk(last) if x.get("kind") == "ForStmt"]
    stmts = [x for x in cast.walk(last) if x.get("kind") == "CompoundAssignOperator"]
    lims = []
    for lp in inner_loops:
        real = [y for y in lp.get("inner", []) if isinstance(y, dict) and y.get("kind")]
        lims.append((cast.text(cast.kids(real[0])[0]), cast.text(cast.kids(real[0])[1]), cast.text(cast.kids(real[-3])[1]).replace(" ", ""), real[-3].get("opcode")))
    ok_lims = len(lims) == 2 and lims[0][:2] == ("i", "0") and lims[0][3] == "<" and lims[0][2] == "num_qpoints" and lims[1][:2] == ("j", "0") and lims[1][3] == "<" and sp.expand(sp.sympify(lims[1][2], locals={"num_temp": nt}) - 3 * nt) == 0 and len(stmts) == 1
    rep.instance("R10g", CF, "phpy_get_thermal_properties", f"row reduction loops {lims}", ok_lims, "the final reduction does not run over all q-points and all 3 * num_temp output cells", line=tu.line(last))
    if not ok_lims:
        return
    t = sp.Symbol("t", integer=True)
    isym = sp.Symbol("i_r", integer=True)
    T, F, W = sp.Function("temperatures"), sp.Function("freqs"), sp.Function("weights")
    k = sp.Symbol("k", integer=True)
    bad = []
    funcs = ("get_free_energy", "get_entropy", "get_heat_capacity")
    for c in range(3):
        st.scalars["i"] = isym
        st.scalars["j"] = 3 * t + c
        st.loopvars.append((isym, sp.Integer(0), nq))
        try:
            st.block(stmts)
        except AnalysisError as ex_:
            st.loopvars.pop()
            if "cannot decide whether" in str(ex_):
                bad.append((c, f"unreadable: the row reduction addresses the scratch array differently from the accumulation ({str(ex_).split('::')[-1][:200]})"))
                continue
            raise
        st.loopvars.pop()
        got = st.cells["thermal_props"][-1][2]
        fik = F(isym * nb + k)
        want = sp.Function("thermal_props")(3 * t + c) + sp.Sum(sp.Function(funcs[c])(T(t), fik, sp.Symbol("classical", integer=True)) * sp.Function("ind_gt")(T(t)) * sp.Function("ind_gt")(fik - sp.Symbol("cutoff_frequency")) * W(isym), (k, 0, nb - 1), (isym, 0, nq - 1))
        if not celem.same(got, want):
            bad.append((c, str(got)[:300]))
    rep.instance("R10g", CF, "phpy_get_thermal_properties", "thermal_props[3 t + c] += sum_i sum_k [T_t > 0][f_ik > cutoff] w_i F_c(T_t, f_ik) for c = 0 (F), 1 (S), 2 (Cv)", not bad,
                 f"for c = {bad[0][0] if bad else ''} the output cell is {bad[0][1] if bad else ''}: not the weighted sum of the documented mode function over all q-points and bands above the cutoff", line=tu.line(fn))
    zero = [x for x in loops[:1] if any(y.get("kind") == "BinaryOperator" and y.get("opcode") == "=" and cast.text(cast.kids(y)[0]).startswith("tp[") for y in cast.walk(x))]
    rep.instance("R10g", CF, "phpy_get_thermal_properties", "the scratch array is zeroed over its whole extent before the accumulation (no uninitialised cell in the closed form)", bool(zero) and not any("uninitialised" in str(v) for _, _, v in st.cells.get("thermal_props", [])), "a cell of the scratch array enters the sum without having been zeroed", line=tu.line(fn))



def _r10h(rep):
    """Constructor options that change which frequencies enter the sums take effect on every path."""
    rep.rule("R10h", "options on every path: with pretend_real the stored frequencies are absolute values whether or not band_indices is given, and with band_indices they are the selected bands whether or not pretend_real is given (path enumeration of ThermalPropertiesBase.__init__ over the two options; the value stored in self._frequencies is followed through locals and re-assignments)", 4)
    init = core.find_def(PY, "ThermalPropertiesBase.__init__")
    params = {a.arg for a in init.args.args}
    if not {"pretend_real", "band_indices", "mesh"} <= params:
        raise AnalysisError(f"{PY}::ThermalPropertiesBase.__init__: parameters pretend_real / band_indices / mesh vanished")

    def truth(test, assume):
        """True / False / None for a test under the assumed option values"""
        t = core.src(test).replace(" ", "")
        if t == "pretend_real":
            return assume["pretend_real"]
        if t == "notpretend_real":
            return not assume["pretend_real"]
        if t in ("band_indicesisnotNone",):
            return assume["band_indices"]
        if t in ("band_indicesisNone",):
            return not assume["band_indices"]
        return None

    def tags(e, env):
        out = set()
        for x in ast.walk(e):
            if isinstance(x, ast.Name) and x.id in env:
                out |= env[x.id]
            elif isinstance(x, ast.Attribute):
                key = core.src(x)
                if key in env:
                    out |= env[key]
                elif key == "mesh.frequencies":
                    out.add("freq")
            elif isinstance(x, ast.Name) and x.id == "band_indices":
                out.add("bi")
        if any(isinstance(x, ast.Call) and core.src(x.func) in ("abs", "np.abs", "np.absolute", "np.fabs") and "freq" in tags_shallow(x, env) for x in ast.walk(e)):
            out.add("abs")
        if any(isinstance(x, ast.Subscript) and "bi" in tags_shallow(x.slice, env) and "freq" in tags_shallow(x.value, env) for x in ast.walk(e)):
            out.add("select")
        return out

    def tags_shallow(e, env):
        out = set()
        for x in ast.walk(e):
            if isinstance(x, ast.Name) and x.id in env:
                out |= env[x.id]
            elif isinstance(x, ast.Name) and x.id == "band_indices":
                out.add("bi")
            elif isinstance(x, ast.Attribute):
                key = core.src(x)
                if key in env:
                    out |= env[key]
                elif key == "mesh.frequencies":
                    out.add("freq")
        return out

    def run_block(stmts, env, assume):
        envs = [env]
        for st in stmts:
            nxt = []
            for e_ in envs:
                if isinstance(st, ast.Assign) and len(st.targets) == 1 and isinstance(st.targets[0], (ast.Name, ast.Attribute)):
                    e2 = dict(e_)
                    e2[core.src(st.targets[0])] = tags(st.value, e_)
                    nxt.append(e2)
                elif isinstance(st, ast.If):
                    tv = truth(st.test, assume)
                    if tv is not False:
                        nxt += run_block(st.body, dict(e_), assume)
                    if tv is not True:
                        nxt += run_block(st.orelse, dict(e_), assume)
                else:
                    nxt.append(e_)
            envs = nxt
        return envs

    for pr in (True, False):
        for bi in (True, False):
            finals = run_block(init.body, {}, {"pretend_real": pr, "band_indices": bi})
            got = [f.get("self._frequencies", set()) for f in finals]
            if not got or any("freq" not in g for g in got):
                raise AnalysisError(f"{PY}::ThermalPropertiesBase.__init__: self._frequencies is not derived from mesh.frequencies on some path")
            ok = all(("abs" in g) == pr or (not pr and "abs" not in g) for g in got) and all(("abs" in g) for g in got if pr) and all(("select" in g) == bi for g in got)
            rep.instance("R10h", PY, "ThermalPropertiesBase.__init__", f"pretend_real={pr}, band_indices {'given' if bi else 'None'}: stored frequencies carry {sorted(set().union(*got) - {'freq', 'bi'})}", ok,
                         f"with pretend_real={pr} and band_indices {'given' if bi else 'None'} the stored frequencies are {'not ' if pr and not all('abs' in g for g in got) else ''}absolute values and {'not ' if bi and not all('select' in g for g in got) else ''}restricted to the selected bands: one option is ignored when the other is used, so imaginary modes of the selected bands drop out of F, S, C_V and the mode count", line=init.lineno)




def _r10f(rep):
    want = {
        "run_free_energy": ("mode_F", "mode_ZPE"),
        "run_entropy": ("mode_S", "mode_zero"),
        "run_heat_capacity": ("mode_cv", "mode_zero"),
    }
    for meth, (hot, cold) in want.items():
        fn = core.find_def(PY, f"ThermalPropertiesBase.{meth}")
        ifs = [s for s in fn.body if isinstance(s, ast.If)]
        ok = False
        if len(ifs) == 1 and core.src(ifs[0].test) == "t > 0":
            tb = core.src(ifs[0].body[0]) if ifs[0].body else ""
            eb = core.src(ifs[0].orelse[0]) if ifs[0].orelse else ""
            ok = f"self._calculate_thermal_property({hot}, t)" in tb and f"self._calculate_thermal_property({cold}, None)" in eb
        rep.instance("R10f", PY, f"ThermalPropertiesBase.{meth}", core.norm(core.src(ifs[0])) if ifs else "<no guard>", ok,
                     f"expected 't > 0' -> {hot}, else -> {cold}", line=fn.lineno)
    # mode_zero returns zeros
    mz = core.find_def(PY, "mode_zero")
    rets = [core.src(s.value) for s in ast.walk(mz) if isinstance(s, ast.Return)]
    rep.instance("R10f", PY, "mode_zero", str(rets), set(rets) == {"np.zeros_like(freqs)", "0.0"}, "mode_zero no longer returns zero", line=mz.lineno)
    tu = cast.load(CF)
    kfn = tu.functions["phpy_get_thermal_properties"]
    conds = kernel_path_conditions(kfn)
    if not conds:
        raise AnalysisError("R10f: no accumulation found in phpy_get_thermal_properties")
    ok = all(("0", "<", "temperatures[j]") in c for c in conds)
    rep.instance("R10f", CF, "phpy_get_thermal_properties", f"kernel guard: every accumulation runs under {sorted(set.intersection(*conds))}", ok,
                 "the kernel does not restrict the harmonic forms to temperatures[j] > 0 (division by T = 0)", line=tu.line(kfn))


def truth_atoms(e, positive=True):
    """Comparison atoms (a, op, b) normalised to '<' / '<=' that hold when C expression e is `positive`."""
    e = cast.strip(e)
    k, op = e.get("kind"), e.get("opcode")
    if k == "UnaryOperator" and op == "!":
        return truth_atoms(cast.kids(e)[0], not positive)
    if k == "BinaryOperator" and op in ("&&", "||"):
        x, y = cast.kids(e)
        if (op == "&&") == positive:
            return truth_atoms(x, positive) | truth_atoms(y, positive)
        return {("?", cast.text(e), "?")}
    if k == "BinaryOperator" and op in ("<", ">", "<=", ">="):
        x, y = (cast.text(cast.strip(t)) for t in cast.kids(e))
        if op in (">", ">="):
            x, y, op = y, x, {">": "<", ">=": "<="}[op]
        if not positive:
            x, y, op = y, x, {"<": "<=", "<=": "<"}[op]
        return {(x, op, y)}
    return {("?", ("" if positive else "!") + cast.text(e), "?")}


def kernel_path_conditions(fn):
    """For every `+=` statement of a C function: the comparison atoms that hold on the path to it
    (enclosing if-conditions and earlier `if (c) continue;` guards of the enclosing loop bodies)."""
    out = []

    def only_continue(st):
        ks = cast.kids(st) if st.get("kind") == "CompoundStmt" else [st]
        return len(ks) == 1 and ks[0].get("kind") == "ContinueStmt"

    def walk(st, conds):
        k = st.get("kind")
        if k == "CompoundStmt":
            cur = set(conds)
            for x in cast.kids(st):
                if x.get("kind") == "IfStmt":
                    ks = cast.kids(x)
                    if len(ks) == 2 and only_continue(ks[1]):
                        cur = cur | truth_atoms(ks[0], False)
                        continue
                walk(x, cur)
            return
        if k == "IfStmt":
            ks = cast.kids(st)
            walk(ks[1], conds | truth_atoms(ks[0], True))
            if len(ks) > 2:
                walk(ks[2], conds | truth_atoms(ks[0], False))
            return
        if k in ("ForStmt", "WhileStmt"):
            walk(cast.kids(st)[-1], conds)
            return
        if k == "CompoundAssignOperator" and st.get("opcode") == "+=" and any(x.get("kind") == "CallExpr" for x in cast.walk(cast.kids(st)[1])):
            out.append(set(conds))  # accumulation of a mode function (the plain row reduction at the end has no call)
            return
        if k not in ("DeclStmt", "BinaryOperator", "CallExpr", "ReturnStmt", "CompoundAssignOperator"):
            for x in cast.kids(st):  # OpenMP directive / captured statement wrappers
                if isinstance(x, dict) and x.get("kind"):
                    walk(x, conds)

    walk(cast.body(fn), set())
    return out


def _r10n(rep):
    """Every q-point of the mesh reaches the compiled thermal reduction exactly once, with its own weight."""
    from engine import pyeval

    rep.rule("R10n", "q-point coverage of the compiled path: whatever way the driver hands the mesh to phonoc.thermal_properties (all at once, or in blocks), the frequency rows passed over all calls are every q-point exactly once and the weights passed with them are those of the same q-points -- evaluated for mesh sizes around every integer constant of the class (block sizes) and for 1 and 7 q-points", 2)
    fn = core.find_def(PY, "ThermalProperties._run_c_thermal_properties")
    tree = core.parse(PY)
    call = _phonoc_call(fn, "thermal_properties")
    consts = {}
    for cls in [c for c in ast.walk(tree) if isinstance(c, ast.ClassDef)]:
        for st in ast.walk(cls):
            if isinstance(st, ast.Assign) and len(st.targets) == 1 and isinstance(st.targets[0], ast.Attribute) and core.src(st.targets[0].value) == "self" and isinstance(st.value, ast.Constant) and isinstance(st.value.value, int) and not isinstance(st.value.value, bool) and st.value.value > 1:
                consts[st.targets[0].attr] = st.value.value
    sizes = {1, 7}
    for c in consts.values():
        if c <= 5000:
            sizes |= {c - 1, c, c + 1, 2 * c, 2 * c + 1, c + c // 2}
    for n in sorted(x for x in sizes if x >= 1):
        seen = []

        def kernel(*a, **k):
            seen.append((a[2] if len(a) > 2 else None, a[3] if len(a) > 3 else None))
            return None

        hooks = {"attr:_frequencies": [("f", k) for k in range(n)], "attr:_weights": [("w", k) for k in range(n)], core.src(call.func): kernel,
                 "len": lambda x: len(x) if isinstance(x, (list, tuple)) else pyeval.Opaque("len"), "range": lambda *a: list(range(*a)), "max": max, "min": min,
                 "zip": lambda *a: [list(t) for t in zip(*a)], "enumerate": lambda x: [[i, y] for i, y in enumerate(x)]}
        hooks.update({"attr:" + k_: v_ for k_, v_ in consts.items()})
        E = pyeval.Evaluator(tree, hooks=hooks, where="_run_c_thermal_properties")
        E.lenient_names = True  # unit constants and the like after the kernel calls: opaque
        try:
            E.call(fn, [pyeval.Opaque("self")])
        except pyeval.Unknown as ex:
            raise AnalysisError(f"R10n: _run_c_thermal_properties cannot be evaluated for {n} q-points ({ex})")
        except pyeval.Raised as ex:
            raise AnalysisError(f"R10n: _run_c_thermal_properties raises {ex} for {n} q-points")
        fr, wt = [], []
        shape_ok = True
        for f_, w_ in seen:
            if not isinstance(f_, list) or not isinstance(w_, list):
                shape_ok = False
                break
            fr += f_
            wt += w_
        ok = shape_ok and sorted(fr) == [("f", k) for k in range(n)] and [k for _, k in fr] == [k for _, k in wt] and all(t == "w" for t, _ in wt)
        missing = sorted(set(range(n)) - {k for _, k in fr}) if shape_ok else []
        rep.instance("R10n", PY, "ThermalProperties._run_c_thermal_properties", f"{n} q-points: {len(seen)} kernel call(s) cover {len(fr)} rows", ok,
                     (f"with {n} q-points the kernel is called {len(seen)} time(s) and receives {len(fr)} frequency rows" + (f"; q-points {missing[:3]}{'...' if len(missing) > 3 else ''} ({len(missing)} in all) never reach it" if missing else "; rows and weights do not belong to the same q-points or a q-point is passed twice") if shape_ok else f"with {n} q-points the arrays handed to the kernel are not rows of the stored frequencies / weights") + ": the temperature-dependent parts of F, S and C_V are summed over a part of the mesh while the zero-point energy and the normalisation use all of it", line=fn.lineno)


def selftest():
    V = []
    b = lambda name, file, old, new, rule, expect="", **kw: V.append(dict(name=name, kind="break", file=file, old=old, new=new, rule=rule, expect=expect, **kw))
    n = lambda name, file, old, new, **kw: V.append(dict(name=name, kind="neutral", file=file, old=old, new=new, **kw))
    b("compiled path fed in blocks, the incomplete last block dropped", PY, "        phonoc.thermal_properties(\n            props,\n            self._temperatures,\n            self._frequencies,\n            self._weights,\n            self._cutoff_frequency,\n            self._classical,\n        )", "        bs = 4\n        for i in range(max(len(self._frequencies) // bs, 1)):\n            phonoc.thermal_properties(\n                props,\n                self._temperatures,\n                self._frequencies[i * bs : (i + 1) * bs],\n                self._weights[i * bs : (i + 1) * bs],\n                self._cutoff_frequency,\n                self._classical,\n            )", "R10n", "_run_c_thermal_properties")
    n("compiled path fed in blocks that cover the mesh", PY, "        phonoc.thermal_properties(\n            props,\n            self._temperatures,\n            self._frequencies,\n            self._weights,\n            self._cutoff_frequency,\n            self._classical,\n        )", "        bs = 4\n        for i in range(0, len(self._frequencies), bs):\n            phonoc.thermal_properties(\n                props,\n                self._temperatures,\n                self._frequencies[i : i + bs],\n                self._weights[i : i + bs],\n                self._cutoff_frequency,\n                self._classical,\n            )")
    b("result array of the compiled thermal reduction allocated without contents", PY, '        props = np.zeros((len(self._temperatures), 3), dtype="double", order="C")', '        props = np.empty((len(self._temperatures), 3), dtype="double", order="C")', "R10y.zeroinit", "_run_c_thermal_properties")
    b("projected thermal sums mask the component axis", PY, "                        eigvecs2[:, cond],", "                        eigvecs2[cond],", "R10k", "_calculate_thermal_property")
    b("entropy: sign of the log term", PY, "return freqs / temp * expVal / (1.0 - expVal) - Kb * np.log(1.0 - expVal)", "return freqs / temp * expVal / (1.0 - expVal) + Kb * np.log(1.0 - expVal)", "R10a", "S + dF/dT")
    b("heat capacity: exp(+x) form back (NaN at large x)", PY, "        expVal = np.exp(-x)\n        return Kb * x**2 * expVal / (1.0 - expVal) ** 2", "        expVal = np.exp(x)\n        return Kb * x**2 * expVal / (expVal - 1.0) ** 2", "R10c", "mode_cv")
    b("free energy: zero-point half dropped in Python", PY, "np.log(1.0 - np.exp((-freqs) / (Kb * temp))) + freqs / 2", "np.log(1.0 - np.exp((-freqs) / (Kb * temp)))", "R10a", "documented")
    b("C heat capacity differs from Python", CF, "        return KB * val1 * val2 * val2;", "        return KB * val1 * val2;", "R10b", "get_heat_capacity")
    b("C classical entropy misses k_B", CF, "        return KB - KB * log(f / (KB * temperature));", "        return -KB * log(f / (KB * temperature));", "R10a", "classical")
    b("zero-point sum over all positive modes", PY, "positive_fs = np.extract(freqs > self._cutoff_frequency, freqs)", "positive_fs = np.extract(freqs > 0.0, freqs)", "R10d", "freqs > 0.0")
    b("C route adds ZPE twice", PY, "fe = props[:, 0] * EvTokJmol + self._zero_point_energy", "fe = props[:, 0] * EvTokJmol + 2 * self._zero_point_energy", "R10e", "fe =")
    b("entropy not scaled to J on the C route", PY, "entropy = props[:, 1] * EvTokJmol * 1000", "entropy = props[:, 1] * EvTokJmol", "R10e", "entropy =")
    n("temperature guard hoisted as an early continue", CF, "        for (j = 0; j < num_temp; j++) {\n            for (k = 0; k < num_bands; k++) {\n                f = freqs[i * num_bands + k];\n                if (temperatures[j] > 0 && f > cutoff_frequency) {", "        for (j = 0; j < num_temp; j++) {\n            if (!(temperatures[j] > 0)) {\n                continue;\n            }\n            for (k = 0; k < num_bands; k++) {\n                f = freqs[i * num_bands + k];\n                if (f > cutoff_frequency) {")
    b("kernel drops high-frequency modes", CF, "                if (temperatures[j] > 0 && f > cutoff_frequency) {", "                if (temperatures[j] > 0 && f > cutoff_frequency && f < 100.0 * KB * temperatures[j]) {", "R10d", "mode filter")
    b("kernel reduction with row stride 2", CF, "            thermal_props[j] += tp[i * num_temp * 3 + j];", "            thermal_props[j] += tp[i * num_temp * 2 + j];", "R10g", "thermal_props")
    b("kernel reads the frequency of another band", CF, "                f = freqs[i * num_bands + k];", "                f = freqs[i * num_bands + j];", "R10g", "thermal_props")
    b("kernel guard admits T = 0", CF, "if (temperatures[j] > 0 && f > cutoff_frequency) {", "if (f > cutoff_frequency) {", "R10f", "kernel guard")
    b("kernel entropy column forgets the weight", CF, "                        get_entropy(temperatures[j], f, classical) * weights[i];", "                        get_entropy(temperatures[j], f, classical);", "R10e", "phpy_get_thermal_properties")
    b("kernel columns 1 and 2 swapped", CF, "                        get_entropy(temperatures[j], f, classical) * weights[i];", "                        get_heat_capacity(temperatures[j], f, classical) * weights[i];", "R10e", "phpy_get_thermal_properties")
    n("kernel weight factor written first", CF, "                        get_entropy(temperatures[j], f, classical) * weights[i];", "                        weights[i] * get_entropy(temperatures[j], f, classical);")
    b("KB constant drifts", CF, "#define KB 8.6173382568083159E-05", "#define KB 8.6173303E-05", "R10e", "KB")
    b("python evaluator uses mode_F at T = 0", PY, "        if t > 0:\n            free_energy = self._calculate_thermal_property(mode_F, t)", "        if t >= 0:\n            free_energy = self._calculate_thermal_property(mode_F, t)", "R10f", "run_free_energy")
    n("heat capacity with x*x", PY, "        return Kb * x**2 * expVal / (1.0 - expVal) ** 2", "        return Kb * x * x * expVal / ((1.0 - expVal) * (1.0 - expVal))")
    n("zero-point sum vectorised with the cutoff mask", PY, "            for freqs, w in zip(self._frequencies, self._weights):\n                positive_fs = np.extract(freqs > self._cutoff_frequency, freqs)\n                zp_energy += np.sum(positive_fs) * w / 2\n", "            masked = np.where(self._frequencies > self._cutoff_frequency, self._frequencies, 0.0)\n            zp_energy = np.dot(self._weights, masked.sum(axis=1)) / 2\n")
    b("pretend_real ignored when band indices are given", PY, "            self._frequencies = mesh.frequencies\n            self._eigenvectors = mesh.eigenvectors\n\n        if pretend_real:\n            self._frequencies = abs(self._frequencies)\n", "            self._frequencies = abs(mesh.frequencies) if pretend_real else mesh.frequencies\n            self._eigenvectors = mesh.eigenvectors\n\n", "R10h", "band_indices given")
    n("pretend_real applied to a local before the branches", PY, "        if band_indices is not None:\n            bi = np.hstack(band_indices).astype(\"intc\")\n            self._band_indices = bi\n            self._frequencies = np.array(\n                mesh.frequencies[:, bi], dtype=\"double\", order=\"C\"\n            )", "        fr = mesh.frequencies\n        if pretend_real:\n            fr = np.abs(fr)\n        if band_indices is not None:\n            bi = np.hstack(band_indices).astype(\"intc\")\n            self._band_indices = bi\n            self._frequencies = np.array(\n                fr[:, bi], dtype=\"double\", order=\"C\"\n            )")
    return V
