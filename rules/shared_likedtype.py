"""Shared rule (C19 R19r): a buffer that receives floating-point results does not take its dtype from a caller-supplied array.

``vals = np.zeros_like(t)`` with ``t`` the temperatures the user passed (``np.array(temperatures)``, no dtype): for
``temperatures=[0, 150, 300]`` the buffer is an integer array, and ``vals[cond] = 1.0 / (np.exp(x) - 1)`` stores the
Bose-Einstein occupations truncated to integers.  Every mean-square displacement computed from them is wrong by a few
per cent; float temperatures (and the default temperature range) are right, and nothing raises.

Reported: ``np.zeros_like / empty_like / ones_like / full_like (P)`` without ``dtype=`` where

  * the prototype P is a parameter of the function, or an attribute ``self.X`` that some method of the class binds to
    ``np.array(param)`` / ``np.asarray(param)`` / a selection of one *without a dtype* (the caller's dtype survives), and
  * the buffer is then stored into (``buf[...] = v`` / ``buf[...] op= v``) with a value v that is floating point whatever
    its operands: it contains a true division or a call of exp / sqrt / log / sinh / cosh / tanh.

A prototype that the function itself made floating point (``np.array(p, dtype="double")``, arithmetic with a float) is
not a parameter any more and is left alone.  Held instances: the ``*_like`` allocations of the scope.
"""

from __future__ import annotations

import ast

from engine import core
from engine.core import AnalysisError

_LIKE = {"np.zeros_like", "np.empty_like", "np.ones_like", "np.full_like"}
_FLOATFN = {"exp", "sqrt", "log", "sinh", "cosh", "tanh", "expm1", "log1p"}
_KEEP = {"np.array", "np.asarray", "np.extract", "np.ascontiguousarray", "np.atleast_1d", "np.sort", "np.unique", "np.compress"}


def _float_valued(e) -> bool:
    for x in ast.walk(e):
        if isinstance(x, ast.BinOp) and isinstance(x.op, ast.Div):
            return True
        if isinstance(x, ast.Call):
            f = x.func.attr if isinstance(x.func, ast.Attribute) else (x.func.id if isinstance(x.func, ast.Name) else "")
            if f in _FLOATFN:
                return True
    return False


def _caller_typed_attrs(cls):
    """attributes of the class whose dtype is the caller's: self.X = np.array(param) (no dtype), directly or through locals"""
    out = set()
    for m in [n for n in cls.body if isinstance(n, ast.FunctionDef)]:
        params = {a.arg for a in m.args.args + m.args.kwonlyargs if a.arg != "self"}
        typed = set(params)  # names whose dtype is the caller's
        for _ in range(3):
            for st in ast.walk(m):
                if isinstance(st, ast.Assign) and len(st.targets) == 1 and isinstance(st.targets[0], ast.Name):
                    v = st.value
                    if isinstance(v, ast.Call) and core.src(v.func) in _KEEP and not any(k.arg == "dtype" for k in v.keywords):
                        if any(isinstance(y, ast.Name) and y.id in typed for a in v.args for y in ast.walk(a)):
                            typed.add(st.targets[0].id)
        for st in ast.walk(m):
            if isinstance(st, ast.Assign):
                for t in st.targets:
                    if isinstance(t, ast.Attribute) and isinstance(t.value, ast.Name) and t.value.id == "self":
                        v = st.value
                        ok = isinstance(v, ast.Name) and v.id in typed - params
                        if isinstance(v, ast.Call) and core.src(v.func) in _KEEP and not any(k.arg == "dtype" for k in v.keywords) and any(isinstance(y, ast.Name) and y.id in typed for a in v.args for y in ast.walk(a)):
                            ok = True
                        if ok:
                            out.add(t.attr)
    return out


def scan(tree):
    held, found = [], []
    classes = [c for c in ast.walk(tree) if isinstance(c, ast.ClassDef)]
    attr_of = {}
    for c in classes:
        typed = _caller_typed_attrs(c)
        for m in ast.walk(c):
            if isinstance(m, ast.FunctionDef):
                attr_of[id(m)] = typed
    # attributes of base classes in the same file
    byname = {c.name: c for c in classes}
    for c in classes:
        for b in c.bases:
            if isinstance(b, ast.Name) and b.id in byname:
                extra = _caller_typed_attrs(byname[b.id])
                for m in ast.walk(c):
                    if isinstance(m, ast.FunctionDef):
                        attr_of[id(m)] = attr_of.get(id(m), set()) | extra
    for fn in [n for n in ast.walk(tree) if isinstance(n, ast.FunctionDef)]:
        params = {a.arg for a in fn.args.args + fn.args.kwonlyargs if a.arg not in ("self", "cls")}
        rebound = {st.targets[0].id for st in ast.walk(fn) if isinstance(st, ast.Assign) and len(st.targets) == 1 and isinstance(st.targets[0], ast.Name)}
        typed_attrs = attr_of.get(id(fn), set())
        for st in ast.walk(fn):
            if not (isinstance(st, ast.Assign) and len(st.targets) == 1 and isinstance(st.targets[0], ast.Name) and isinstance(st.value, ast.Call) and core.src(st.value.func) in _LIKE and st.value.args):
                continue
            if any(k.arg == "dtype" for k in st.value.keywords):
                continue
            proto = st.value.args[0]
            caller = (isinstance(proto, ast.Name) and proto.id in params and proto.id not in rebound) or \
                     (isinstance(proto, ast.Attribute) and isinstance(proto.value, ast.Name) and proto.value.id == "self" and proto.attr in typed_attrs)
            buf = st.targets[0].id
            stores = []
            for x in ast.walk(fn):
                t, v = None, None
                if isinstance(x, ast.Assign) and isinstance(x.targets[0], ast.Subscript):
                    t, v = x.targets[0], x.value
                elif isinstance(x, ast.AugAssign) and isinstance(x.target, ast.Subscript):
                    t, v = x.target, x.value
                if t is not None and isinstance(t.value, ast.Name) and t.value.id == buf and _float_valued(v):
                    stores.append(x)
            if caller and stores:
                found.append((fn, st, core.src(proto), stores[0]))
            else:
                held.append((fn, st))
    return held, found


_CONTROL = '''
import numpy as np
class M:
    def set_t(self, temperatures):
        t_array = np.array(temperatures)
        self._t = np.extract(t_array >= 0, t_array)
    def bad(self, freq, t):
        vals = np.zeros_like(t)
        cond = t > 1.0
        vals[cond] = 1.0 / (np.exp(freq / t[cond]) - 1)
        return vals
    def bad2(self, freq):
        vals = np.zeros_like(self._t)
        vals[:] = np.sqrt(freq)
        return vals
    def good(self, freq, t):
        vals = np.zeros(len(t), dtype="double")
        vals[t > 1.0] = 1.0 / (np.exp(freq / t[t > 1.0]) - 1)
        return vals
    def good2(self, freq, t):
        vals = np.zeros_like(t, dtype="double")
        vals[:] = 1.0 / t
        return vals
    def good3(self, idx):
        out = np.zeros_like(idx)
        out[1:] = idx[:-1]
        return out
'''


def run(rep: core.Report, rid: str, scope: list[str], floor: int = 0):
    rep.rule(rid, "a buffer allocated with zeros_like / empty_like / ones_like / full_like and no dtype, whose prototype is a parameter or an attribute holding the caller's array as given (np.array(param) without dtype), does not receive floating-point results (a true division, exp, sqrt, log): with integer input -- temperatures=[0, 150, 300] -- the results are truncated to integers on assignment", floor)
    t = ast.parse(_CONTROL)
    for n in ast.walk(t):
        for ch in ast.iter_child_nodes(n):
            ch._parent = n
    h, f = scan(t)
    if sorted(x[0].name for x in f) != ["bad", "bad2"] or sorted(x[0].name for x in h) != ["good3"]:
        raise AnalysisError(f"{rid}: the rule no longer classifies its own examples (found {[x[0].name for x in f]}, held {[x[0].name for x in h]})")
    for rel in scope:
        tree = core.parse(rel)
        held, found = scan(tree)
        for fn, st in held:
            rep.instance(rid, rel, core.qualname_of(st), core.norm(core.src(st), 70), True, "", line=st.lineno, nontrivial=False)
        for fn, st, proto, store in found:
            rep.instance(rid, rel, core.qualname_of(st), core.norm(core.src(st), 70), False,
                         f"'{core.norm(core.src(st), 60)}' takes the dtype of '{proto}', which is whatever the caller passed (integers for temperatures=[0, 150, 300] or range(...)), and '{core.norm(core.src(store), 70)}' stores floating-point values into it: they are truncated to integers, e.g. the Bose-Einstein occupations, and every mean-square displacement computed from them is off; float input is unaffected and nothing raises", line=st.lineno)
