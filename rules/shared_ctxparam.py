"""Shared rule (C16 R16y.ctxparam): a function that knows the calculator passes it on to callees that depend on it.

``read_force_constants_from_hdf5(filename, p2s_map=None, calculator=None)`` converts the stored physical unit to the
unit system of the *calculator*; ``calculator=None`` means VASP.  A caller that holds a Phonopy object (or a
``calculator`` of its own) and calls it without ``calculator=`` gets force constants in eV/angstrom^2 inside an object
that works in Ry/au^2: every frequency is scaled, nothing raises.  The same shape holds for the other functions of the
package that take an optional ``calculator``: the default is a silent "VASP".

Instances: calls -- directly, or through a local bound to function names (``read_fc = read_force_constants_from_hdf5``)
-- of a function of the package (unique simple name) that has an *optional* parameter ``calculator``, made from a
function in which a calculator is available: a parameter or local named ``calculator``, an attribute ``.calculator``
read somewhere in the function, or a parameter annotated ``Phonopy``.  Held when the call supplies the parameter
(by keyword or position); reported otherwise.  Exceptions are listed with their reason.
"""

from __future__ import annotations

import ast

from engine import core
from engine.core import AnalysisError

CTX = "calculator"
# (file, calling function, callee): reason
EXCEPTIONS = {
    ("phonopy/cui/phonopy_script.py", "_run_calculation", "write_modulations"): "the modulated structures are documented as MPOSCAR files, i.e. always in VASP format",
}


def definitions(files):
    defs = {}
    for rel in files:
        for n in ast.walk(core.parse(rel)):
            if isinstance(n, ast.FunctionDef):
                defs.setdefault(n.name, []).append(n)
    return {k: v[0] for k, v in defs.items() if len(v) == 1}


def _optional(d, name):
    ps = [a.arg for a in d.args.posonlyargs + d.args.args]
    nd = len(d.args.defaults)
    opt = set(ps[len(ps) - nd:]) if nd else set()
    opt |= {a.arg for a, dd in zip(d.args.kwonlyargs, d.args.kw_defaults) if dd is not None}
    return name in opt


def scan(tree, defs):
    held, found = [], []
    for fn in [n for n in ast.walk(tree) if isinstance(n, ast.FunctionDef)]:
        params = [a.arg for a in fn.args.posonlyargs + fn.args.args + fn.args.kwonlyargs]
        annot = [core.src(a.annotation) for a in fn.args.args + fn.args.kwonlyargs if a.annotation is not None]
        has = (CTX in params or any(isinstance(x, ast.Attribute) and x.attr == CTX for x in ast.walk(fn))
               or any(v.split(".")[-1].strip("'\"") == "Phonopy" for v in annot)
               or any(isinstance(x, ast.Name) and x.id in (CTX, "_" + CTX) for x in ast.walk(fn)))
        if not has:
            continue
        alias = {}
        for st in ast.walk(fn):
            if isinstance(st, ast.Assign) and len(st.targets) == 1 and isinstance(st.targets[0], ast.Name) and isinstance(st.value, ast.Name) and st.value.id in defs:
                alias.setdefault(st.targets[0].id, set()).add(st.value.id)
        for c in ast.walk(fn):
            if not isinstance(c, ast.Call) or any(k.arg is None for k in c.keywords) or any(isinstance(a, ast.Starred) for a in c.args):
                continue
            if core.enclosing_function(c) is not fn and getattr(c, "_parent", None) is not None:
                continue
            nm = c.func.id if isinstance(c.func, ast.Name) else (c.func.attr if isinstance(c.func, ast.Attribute) else None)
            cands = alias.get(nm) if isinstance(c.func, ast.Name) and nm in alias else ({nm} if nm in defs else set())
            for cn in sorted(cands or ()):
                d = defs[cn]
                if d is fn or not _optional(d, CTX):
                    continue
                ps = [a.arg for a in d.args.posonlyargs + d.args.args]
                off = 1 if ps and ps[0] in ("self", "cls") else 0
                supplied = {k.arg for k in c.keywords} | set(ps[off:off + len(c.args)])
                (held if CTX in supplied else found).append((fn, c, cn))
    return held, found


_CONTROL = '''
def read_h5(filename, p2s_map=None, calculator=None):
    return filename
def read_txt(filename, p2s_map=None):
    return filename
def bad(phonon: Phonopy, name):
    rd = read_h5 if name.endswith("hdf5") else read_txt
    reader = read_h5
    return reader(filename=name, p2s_map=phonon.primitive.p2s_map)
def good(phonon: Phonopy, name):
    return read_h5(filename=name, p2s_map=phonon.primitive.p2s_map, calculator=phonon.calculator)
def unrelated(name):
    return read_h5(name)
'''


def run(rep: core.Report, rid: str, scope: list[str], floor: int = 0):
    rep.rule(rid, "a function in which the calculator is available (a parameter / local 'calculator', an attribute '.calculator', a Phonopy object) supplies it to every callee of the package that takes an optional 'calculator' (default None means VASP units and formats), also when the callee is reached through a local bound to function names", floor)
    t = ast.parse(_CONTROL)
    for n in ast.walk(t):
        for ch in ast.iter_child_nodes(n):
            ch._parent = n
    cd = {n.name: n for n in t.body if isinstance(n, ast.FunctionDef)}
    h, f = scan(t, cd)
    if sorted(x[0].name for x in f) != ["bad"] or sorted(x[0].name for x in h) != ["good"]:
        raise AnalysisError(f"{rid}: the rule no longer classifies its own examples (found {[x[0].name for x in f]}, held {[x[0].name for x in h]})")
    defs = definitions(core.python_files("phonopy"))
    for rel in scope:
        tree = core.parse(rel)
        held, found = scan(tree, defs)
        for fn, c, cn in held:
            rep.instance(rid, rel, core.qualname_of(c), f"{cn}(… calculator=…)", True, "", line=c.lineno, nontrivial=False)
        for fn, c, cn in found:
            why = EXCEPTIONS.get((rel, fn.name, cn))
            if why:
                rep.instance(rid, rel, core.qualname_of(c), f"{cn}(…) without calculator: {why}", True, "", line=c.lineno, nontrivial=False)
                continue
            rep.instance(rid, rel, core.qualname_of(c), f"{core.norm(core.src(c), 70)}", False,
                         f"{fn.name}() has the calculator at hand but calls {cn}() without its optional 'calculator' argument, so {cn}() works with its default (None: VASP units / format): e.g. force constants read from an hdf5 file are converted to eV/angstrom^2 and then used by an object that works in the calculator's own units -- every frequency is scaled by a constant and nothing raises", line=c.lineno)
