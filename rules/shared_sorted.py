"""Shared rule (C02 R02j, C09 R09k, C10 R10j, C11 R11o): a binary search is made on a sorted sequence.

`np.searchsorted(a, v)` returns the insertion position of v in a *sorted* array; on anything else the position is
arbitrary and nothing raises.  The first argument of every call (locals assigned once inlined) must be sorted by
construction: np.sort / sorted / np.unique / np.arange / np.linspace / np.cumsum of something, or x[order] (any
reshaping of x) with order = np.argsort(x) of the same x.  Frequencies of one q-point, index maps such as p2s_map and
user-supplied lists are not: the eigen-solver's ascending order is lost by abs() (pretend_real) and by a band selection
in any order, p2s_map by Primitive(positions_to_reorder=...).  The confirmed tree has no such call; the rule is kept
alive by a built-in example that must be reported on every run.
"""

from __future__ import annotations

import ast

from engine import core
from engine.core import AnalysisError

SORTED_CALLS = {"np.sort", "sorted", "np.unique", "np.arange", "np.linspace", "np.cumsum", "np.sort_complex"}

_CONTROL = """
def f(freqs, cutoff):
    i_cut = np.searchsorted(freqs, cutoff, side="right")
    return freqs[i_cut:]
def g(x, v):
    order = np.argsort(x, axis=None)
    xs = x.ravel()[order]
    return np.searchsorted(xs, v)
"""


def _once(fn):
    d: dict = {}
    for n in ast.walk(fn):
        if isinstance(n, ast.Assign) and len(n.targets) == 1 and isinstance(n.targets[0], ast.Name):
            d.setdefault(n.targets[0].id, []).append(n.value)
    return {k: v[0] for k, v in d.items() if len(v) == 1}


def _root(e):
    while True:
        if isinstance(e, ast.Call) and isinstance(e.func, ast.Attribute) and e.func.attr in ("ravel", "flatten", "reshape", "copy", "astype"):
            e = e.func.value
        elif isinstance(e, ast.Call) and core.src(e.func) in ("np.array", "np.asarray", "np.ravel") and e.args:
            e = e.args[0]
        else:
            return e


def is_sorted(e, env, depth=0) -> bool:
    e0 = e
    if isinstance(e, ast.Name) and e.id in env and depth < 4:
        return is_sorted(env[e.id], env, depth + 1)
    if isinstance(e, ast.Call) and core.src(e.func) in SORTED_CALLS:
        return True
    if isinstance(e, ast.Call) and core.src(e.func) in ("np.array", "np.asarray") and e.args:
        return is_sorted(e.args[0], env, depth + 1)
    if isinstance(e, ast.Subscript):
        idx = e.slice
        idx = env.get(idx.id, idx) if isinstance(idx, ast.Name) else idx
        if isinstance(idx, ast.Call) and core.src(idx.func) == "np.argsort" and idx.args:
            return core.src(_root(idx.args[0])) == core.src(_root(e.value))
    return False


def _scan(tree, rel):
    out = []
    for fn in [n for n in ast.walk(tree) if isinstance(n, ast.FunctionDef)]:
        env = _once(fn)
        for c in ast.walk(fn):
            if isinstance(c, ast.Call) and core.src(c.func) in ("np.searchsorted", "numpy.searchsorted") and c.args:
                out.append((fn, c, is_sorted(c.args[0], env)))
            elif isinstance(c, ast.Call) and isinstance(c.func, ast.Attribute) and c.func.attr == "searchsorted" and not (isinstance(c.func.value, ast.Name) and c.func.value.id in ("np", "numpy")):
                out.append((fn, c, is_sorted(c.func.value, env)))
    return out


def run(rep: core.Report, rid: str, scope: list[str]):
    rep.rule(rid, "binary search on sorted data: the first argument of every np.searchsorted call is sorted by construction (np.sort / unique / arange / cumsum, or x[argsort(x)]); frequencies at a q-point, index maps and caller-supplied lists are not", 0)
    ctrl = _scan(ast.parse(_CONTROL), "<control>")
    if [ok for _, _, ok in ctrl] != [False, True]:
        raise AnalysisError(f"{rid}: the rule no longer classifies its own two examples (unsorted / sorted)")
    for rel in scope:
        for fn, c, ok in _scan(core.parse(rel), rel):
            rep.instance(rid, rel, core.qualname_of(fn), core.norm(core.src(c), 90), ok,
                         f"np.searchsorted is applied to '{core.norm(core.src(c.args[0] if core.src(c.func).startswith('np') or core.src(c.func).startswith('numpy') else c.func.value), 50)}', which is not sorted by construction: where the order is not ascending (absolute values of imaginary modes, a band selection in another order, a reordered atom list) the position found is arbitrary, modes / entries on the wrong side of it are included or dropped, and nothing raises", line=c.lineno)
