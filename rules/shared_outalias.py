"""Shared rule (C14 R14p): a ufunc's ``out=`` array is not an input that is read again afterwards.

``np.sqrt(np.abs(x), out=x)`` overwrites x; a later ``np.sign(x)`` then sees the square roots, not the values the
sign was meant to be taken from.  Inside one function this is visible when the ``out=`` expression is textually an
input that is read again later; across a call it hides behind two parameters: ``def f(values, out=None)`` is correct
for every caller that passes different arrays and wrong for ``f(a, out=a)``.  The rule summarises, per function, the
parameters handed to ``out=`` of a numpy call and the parameters read after that call, and reports every call site
(same module, methods through ``self.``) that passes the same expression for both; it also reports the
intra-function form.
"""

from __future__ import annotations

import ast

from engine import core
from engine.core import AnalysisError


def _summaries(tree):
    """function name -> [(out parameter, parameter read afterwards, node of the later read)]"""
    out = {}
    for fn in [x for x in ast.walk(tree) if isinstance(x, ast.FunctionDef)]:
        params = [a.arg for a in fn.args.args + fn.args.kwonlyargs if a.arg != "self"]
        pairs = []
        stmts = [st for st in ast.walk(fn) if isinstance(st, ast.stmt) and st is not fn]
        for c in ast.walk(fn):
            if not (isinstance(c, ast.Call) and any(k.arg == "out" for k in c.keywords)):
                continue
            ov = next(k.value for k in c.keywords if k.arg == "out")
            if not (isinstance(ov, ast.Name) and ov.id in params):
                continue
            for st in stmts:
                if st.lineno <= c.lineno:
                    continue
                for n in ast.walk(st):
                    if isinstance(n, ast.Name) and isinstance(n.ctx, ast.Load) and n.id in params and n.id != ov.id:
                        pairs.append((ov.id, n.id, n))
        if pairs:
            out[fn.name] = (fn, params, pairs)
    return out


def scan(tree):
    """[(function, node, message)]"""
    found = []
    summ = _summaries(tree)
    for fn in [x for x in ast.walk(tree) if isinstance(x, ast.FunctionDef)]:
        # intra-function: out=<expr> where <expr> is also read later in the function
        for c in ast.walk(fn):
            if isinstance(c, ast.Call) and any(k.arg == "out" for k in c.keywords):
                ov = next(k.value for k in c.keywords if k.arg == "out")
                if isinstance(ov, ast.Constant):
                    continue
                txt = core.src(ov)
                ins = [a for a in c.args if any(core.src(x) == txt for x in ast.walk(a))]
                if not ins:
                    continue
                later = [n for st in ast.walk(fn) if isinstance(st, ast.stmt) and st is not fn and st.lineno > c.lineno for n in ast.walk(st) if isinstance(n, (ast.Name, ast.Attribute, ast.Subscript)) and core.src(n) == txt and isinstance(getattr(n, "ctx", None), ast.Load)]
                # reading the result through the same name is the normal use; only a read inside a call that is
                # meant to see the original values can be told apart when the result was bound to another name
                par = getattr(c, "_parent", None)
                bound = par.targets[0] if isinstance(par, ast.Assign) and par.value is c and isinstance(par.targets[0], ast.Name) else None
                if bound is not None and bound.id != txt and later:
                    found.append((fn, c, f"'{core.norm(core.src(c), 60)}' writes its result into '{txt}', an input of the same expression, and '{txt}' is read again at line {later[0].lineno}: that read sees the result, not the original values"))
        # call sites passing the same expression for the out parameter and a parameter read afterwards
        for c in ast.walk(fn):
            if not isinstance(c, ast.Call):
                continue
            name = c.func.attr if isinstance(c.func, ast.Attribute) and core.src(c.func.value) == "self" else (c.func.id if isinstance(c.func, ast.Name) else None)
            if name not in summ:
                continue
            callee, params, pairs = summ[name]
            bound = {}
            for k, a in enumerate(c.args):
                if k < len(params):
                    bound[params[k]] = a
            for kw in c.keywords:
                if kw.arg in params:
                    bound[kw.arg] = kw.value
            for outp, readp, node in pairs:
                if outp in bound and readp in bound and core.src(bound[outp]) == core.src(bound[readp]):
                    found.append((fn, c, f"'{core.norm(core.src(c), 70)}' passes '{core.src(bound[outp])}' both as '{readp}' and as the out= array '{outp}' of {name}(): inside, '{readp}' is read again (line {node.lineno}) after the ufunc has overwritten it -- e.g. the sign of an eigenvalue is taken from its square root, so imaginary modes come out positive"))
    return found


_CONTROL = '''
def conv(values, out=None):
    r = np.sqrt(np.abs(values), out=out)
    r *= np.sign(values)
    return r

def bad(a):
    return conv(a, out=a)

def good(a):
    return conv(a)
'''


def run(rep: core.Report, rid: str, scope: list[str]):
    rep.rule(rid, "the out= array of a numpy call is not an input that is read again afterwards: per function, parameters handed to out= and parameters read after that call; every call site passing the same array for both is reported (expected count on the tree: none; built-in pair of examples)", 0)
    t = ast.parse(_CONTROL)
    for n in ast.walk(t):
        for c in ast.iter_child_nodes(n):
            c._parent = n
    ctrl = sorted({f.name for f, _, _ in scan(t)})
    if ctrl != ["bad"]:
        raise AnalysisError(f"{rid}: the rule no longer classifies its own examples ({ctrl})")
    for rel in scope:
        for fn, node, msg in scan(core.parse(rel)):
            rep.instance(rid, rel, core.qualname_of(fn), core.norm(core.src(node), 90), False, msg, line=node.lineno)
