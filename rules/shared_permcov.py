"""Shared rule (C06 R06y.permcov): a two-index array is transported by an index map in one direction.

Copying the block of atom i to its image under a permutation ``p`` needs both indices moved the same way:
``new[p[i], p[j]] = old[i, j]`` -- written either as a scatter ``X[p[i], p] = X[i]`` or, with the inverse map, as a
gather ``X[i] = X[q[i]][q]``.  The mixed form ``X[p[i]] = X[i][p]`` moves the row forward and pulls the column back
through the same map: ``new[p(i), j] = old[i, p(j)]``, which is the transported array only when p is its own inverse
(a 2x2x2 supercell), and for every other translation the columns come back permuted the wrong way.  Nothing raises.

Instances: assignments whose target and value subscript the same array.  Reported when some index-map name P is used
*inside the target's subscript* and *inside a subscript of the value* in different roles (``P[i]`` on one side, ``P`` or
``P[j]`` on the other); the same element selection on both sides (``X[P[i]] = f(X[P[i]])``) is an in-place update, not a
transport, and is left alone.
"""

from __future__ import annotations

import ast

from engine import core
from engine.core import AnalysisError


def _base(e):
    while isinstance(e, ast.Subscript):
        e = e.value
    return core.src(e)


def _index_names(sub):
    """{map name: set of index-expression texts} for the subscripts along a chain X[a][b, c]..."""
    out = {}
    e = sub
    while isinstance(e, ast.Subscript):
        parts = e.slice.elts if isinstance(e.slice, ast.Tuple) else [e.slice]
        for p in parts:
            if isinstance(p, ast.Name):
                out.setdefault(p.id, set()).add(core.src(p))
            elif isinstance(p, ast.Subscript) and isinstance(p.value, (ast.Name, ast.Attribute)):
                out.setdefault(core.src(p.value), set()).add(core.src(p))
        e = e.value
    return out


def scan(tree):
    held, found = [], []
    for st in ast.walk(tree):
        if not (isinstance(st, ast.Assign) and len(st.targets) == 1 and isinstance(st.targets[0], ast.Subscript)):
            continue
        tgt = st.targets[0]
        tb = _base(tgt)
        t_idx = _index_names(tgt)
        vals = [x for x in ast.walk(st.value) if isinstance(x, ast.Subscript) and _base(x) == tb]
        # outermost chains only
        inner = {id(x.value) for x in vals if isinstance(x.value, ast.Subscript)}
        vals = [x for x in vals if id(x) not in inner]
        if not vals or not t_idx:
            continue
        hit = None
        for v in vals:
            v_idx = _index_names(v)
            for name, texts in t_idx.items():
                if name in v_idx:
                    # an index-map array: it is subscripted somewhere, or used whole as an index
                    is_map = any(t != name for t in texts | v_idx[name])
                    if is_map and texts != v_idx[name]:
                        hit = (name, sorted(texts)[0], sorted(v_idx[name])[0])
        # loop variables used as plain indices on both sides are not maps
        if hit:
            found.append((st, hit))
        else:
            held.append(st)
    return held, found


_CONTROL = '''
def bad(fc, perms, p2s):
    for perm in perms:
        for s_i in p2s:
            fc[perm[s_i]] = fc[s_i][perm]
def good(fc, perms, p2s):
    for perm in perms:
        for s_i in p2s:
            fc[perm[s_i], perm] = fc[s_i]
def good2(fc, inv, n):
    for i in range(n):
        fc[i] = fc[inv[i]][inv]
def good3(x, p, i):
    x[p[i]] = 2 * x[p[i]]
'''


def run(rep: core.Report, rid: str, scope: list[str], floor: int = 0):
    rep.rule(rid, "a two-index array copied onto itself through an index map moves both indices the same way: the map is applied on the target side only (scatter) or on the value side only (gather, with the inverse map), never as a row scatter combined with a column gather through the same map, which is the transported array only for self-inverse maps", floor)
    t = ast.parse(_CONTROL)
    for n in ast.walk(t):
        for ch in ast.iter_child_nodes(n):
            ch._parent = n
    _, f = scan(t)
    got = sorted(core.qualname_of(x[0]) for x in f)
    if got != ["bad"]:
        raise AnalysisError(f"{rid}: the rule no longer classifies its own examples (got {got})")
    for rel in scope:
        tree = core.parse(rel)
        held, found = scan(tree)
        for st in held:
            rep.instance(rid, rel, core.qualname_of(st), core.norm(core.src(st), 80), True, "", line=st.lineno, nontrivial=False)
        for st, (name, a, b) in found:
            rep.instance(rid, rel, core.qualname_of(st), core.norm(core.src(st), 80), False,
                         f"'{core.norm(core.src(st), 70)}' uses the index map '{name}' as '{a}' in the target and as '{b}' in the value: one index of the array is moved forward through the map and the other is pulled back through the same map, which reproduces the translated block only when the map is its own inverse (every translation of a 2x2x2 supercell is; a translation of a 3x1x1 supercell is not) -- the full force constants rebuilt this way have the columns of every image row permuted the wrong way", line=st.lineno)
