"""C09 — symmetry-reduced mesh sampling equals full mesh sampling (DESIGN §3 C09)."""

from __future__ import annotations

import ast

import sympy as sp

from engine import core, pycfg, symalg
from engine.core import AnalysisError

GP = "phonopy/structure/grid_points.py"
MESH = "phonopy/phonon/mesh.py"
API = "phonopy/api_phonopy.py"


def run(rep: core.Report):
    rep.rule("R09a", "weights account for every grid point by construction: one increment per entry of the mapping table, selected by the set of values of the same table", 1)
    rep.rule("R09b", "coupled flags: wherever mesh symmetry is switched off, time reversal handed to the symmetry library is off as well (GridPoints constructor paths, MeshBase callers)", 3)
    rep.rule("R09c", "the same point-group rotations reach stored and iterated meshes; the symmetry library receives them untransposed and the lattice-equivalence test their transposes", 3)
    rep.rule("R09d", "every consumer of a mesh weights its sum by the multiplicity of the same q-point and normalises by the sum of weights; consumers that need an unreduced mesh test for it before they start", 8)
    rep.rule("R09e", "axis/weight typing of the mesh consumers (moments, DOS, thermal sums): every construct that sums over the irreducible q-points (sum/mean over that axis, np.dot/einsum contracting it, += in a loop over q) has the weight of the q-point on its operand, and the stored result is homogeneous of degree 0 in the weights (normalised by their sum)", 10)
    rep.rule("R09f", "precondition for reducing a mesh by point-group rotations: for each pair of lattice-equivalent axes both the mesh numbers and the half-shift flags of exactly these axes are compared (order b~c, c~a, a~b of get_lattice_vector_equivalence)", 6)
    rep.rule("R09g", "q-point coordinates: irreducible q = (grid address + half-shift flag / 2) / mesh; the half-shift flags are, for shift components 0 and 1/2, exactly 'shift' (Gamma-centred) and 'shift xor even mesh' (Monkhorst-Pack), None otherwise (evaluated over the finite domain shift x parity x centring); a general shift is added as shift / mesh; length2mesh aligns exactly the lattice-equivalent pairs", 6)
    _r09a(rep)
    _r09g(rep)
    _r09b(rep)
    _r09c(rep)
    _r09d(rep)


def _r09a(rep):
    """Multiset reading of extract_ir_grid_points: TABLE (the mapping table), UNIQ (its distinct values, sorted),
    FULL (multiplicity of every value, indexed by value), CNT (multiplicities aligned with UNIQ)."""
    fn = core.find_def(GP, "extract_ir_grid_points")
    table = fn.args.args[0].arg
    env = {table: "TABLE"}
    notes = []

    def ty(e):
        if isinstance(e, ast.Name):
            return env.get(e.id)
        if isinstance(e, ast.Call):
            f = core.src(e.func)
            a0 = ty(e.args[0]) if e.args else None
            kw = {k.arg: k.value for k in e.keywords}
            if f in ("np.array", "np.asarray", "np.ascontiguousarray") or (isinstance(e.func, ast.Attribute) and e.func.attr in ("astype", "copy")):
                return a0 if f.startswith("np.") else ty(e.func.value)
            if f == "np.unique" and a0 == "TABLE":
                if isinstance(kw.get("return_counts"), ast.Constant) and kw["return_counts"].value is True and len(kw) == 1:
                    return ("UNIQ", "CNT")
                if not kw:
                    return "UNIQ"
                return None
            if f in ("np.zeros_like", "np.zeros") and e.args:
                t = core.src(e.args[0])
                if a0 == "TABLE" or t in (f"len({table})", f"{table}.shape", f"{table}.shape[0]", f"({table}.shape[0],)", f"{table}.size"):
                    return "ZERO"
                return None
            if f == "np.bincount" and a0 == "TABLE":
                return "FULL"
            return None
        if isinstance(e, ast.Subscript):
            if ty(e.value) == "FULL" and ty(e.slice) == "UNIQ":
                return "CNT"
            return None
        if isinstance(e, ast.Attribute):
            return None
        return None

    for st in fn.body:
        if isinstance(st, ast.Assign):
            v = ty(st.value)
            t = st.targets[0]
            if isinstance(t, ast.Name) and isinstance(v, str):
                env[t.id] = v
            elif isinstance(t, ast.Tuple) and isinstance(v, tuple) and len(t.elts) == len(v):
                for nm, x in zip(t.elts, v):
                    if isinstance(nm, ast.Name):
                        env[nm.id] = x
        elif isinstance(st, ast.For) and isinstance(st.target, ast.Name):
            it = ty(st.iter)
            v = st.target.id
            for b_ in st.body:
                if isinstance(b_, ast.AugAssign) and isinstance(b_.op, ast.Add) and isinstance(b_.target, ast.Subscript) and core.src(b_.target.slice) == v and isinstance(b_.value, ast.Constant) and b_.value.value == 1 and ty(b_.target.value) == "ZERO":
                    nm = core.src(b_.target.value)
                    if it == "TABLE":
                        env[nm] = "FULL"
                    else:
                        env[nm] = "WRONG"
                        notes.append((st, f"the counter is incremented once per element of '{core.src(st.iter)}', not once per grid point of the whole mapping table"))
        elif isinstance(st, ast.Expr) and isinstance(st.value, ast.Call) and core.src(st.value.func) == "np.add.at" and len(st.value.args) == 3:
            w, idx, one = st.value.args
            if ty(w) == "ZERO" and isinstance(one, ast.Constant) and one.value == 1:
                env[core.src(w)] = "FULL" if ty(idx) == "TABLE" else "WRONG"
    rets = [r for r in ast.walk(fn) if isinstance(r, ast.Return) and isinstance(r.value, ast.Tuple) and len(r.value.elts) == 2]
    if len(rets) != 1:
        raise AnalysisError("R09a: extract_ir_grid_points no longer returns (ir_grid_points, weights)")
    r0, r1 = (ty(x) for x in rets[0].value.elts)
    if "WRONG" in env.values():
        rep.instance("R09a", GP, "extract_ir_grid_points", core.norm(core.src(notes[0][0]), 70), False, notes[0][1] + ": sum(weights) != number of grid points", line=notes[0][0].lineno)
        return
    if r0 is None or r1 is None:
        raise AnalysisError(f"R09a: the construction of the returned (points, weights) = ({r0}, {r1}) is not one of the modelled forms (loop / np.add.at / bincount / unique(return_counts))")
    rep.instance("R09a", GP, "extract_ir_grid_points", "every grid point of the mapping table is counted exactly once", r1 in ("CNT",), "the weights are not the multiplicities of the values of the mapping table", line=fn.lineno)
    rep.instance("R09a", GP, "extract_ir_grid_points", "ir_grid_points = distinct values of the same table", r0 == "UNIQ", "the irreducible points are not the set of values of the mapping table", line=fn.lineno)
    rep.instance("R09a", GP, "extract_ir_grid_points", f"returns ({r0}, {r1}): weights aligned with the irreducible points", (r0, r1) == ("UNIQ", "CNT"), "the returned weights are not the accumulated counts at the irreducible points (in the same order)", line=fn.lineno)


def _fold(e, env):
    """Constant folding of a pure arithmetic / comparison expression over Python floats and bools (np.abs, np.rint,
    np.logical_xor, list, %, comparisons): used to tabulate an expression over a small finite domain."""
    if isinstance(e, ast.Constant):
        return e.value
    if isinstance(e, ast.Name):
        if e.id in env:
            return env[e.id]
        raise KeyError(e.id)
    if isinstance(e, ast.Attribute):
        t = core.src(e)
        if t in env:
            return env[t]
        raise KeyError(t)
    if isinstance(e, ast.UnaryOp):
        v = _fold(e.operand, env)
        return -v if isinstance(e.op, ast.USub) else (not v if isinstance(e.op, ast.Not) else v)
    if isinstance(e, ast.BinOp):
        a, b = _fold(e.left, env), _fold(e.right, env)
        return {ast.Add: lambda: a + b, ast.Sub: lambda: a - b, ast.Mult: lambda: a * b, ast.Div: lambda: a / b, ast.Mod: lambda: a % b}[type(e.op)]()
    if isinstance(e, ast.Compare) and len(e.ops) == 1:
        a, b = _fold(e.left, env), _fold(e.comparators[0], env)
        return {ast.Lt: a < b, ast.LtE: a <= b, ast.Gt: a > b, ast.GtE: a >= b, ast.Eq: a == b, ast.NotEq: a != b}[type(e.ops[0])]
    if isinstance(e, ast.Call):
        f = core.src(e.func)
        args = [_fold(a, env) for a in e.args]
        if f in ("np.abs", "abs"):
            return abs(args[0])
        if f in ("np.rint", "round"):
            return float(round(args[0]))  # banker's rounding, as numpy
        if f == "np.logical_xor":
            return bool(args[0]) != bool(args[1])
        if f in ("list", "np.array", "float", "int", "bool"):
            return args[0]
        if isinstance(e.func, ast.Attribute) and e.func.attr == "all" and not e.args:
            return _fold(e.func.value, env)
        raise KeyError(f)
    raise KeyError(type(e).__name__)


def _r09g(rep):
    # (1) coordinates of the irreducible q-points
    si = core.find_def(GP, "GridPoints._set_ir_qpoints")
    tr = symalg.OpenPyTranslator(where="GridPoints._set_ir_qpoints")
    env = tr.summary(si)
    vals = tr.assigned.get("self._ir_qpoints", [])
    ok = False
    if vals:
        got = vals[-1]
        inner_g = got.args[0] if got.args else got  # first argument of the outer np.array(...)
        inner_w = tr.expr(ast.parse("(self._grid_address[self._ir_grid_points] + np.array(self._is_shift) * 0.5) / self._mesh", mode="eval").body, env)
        ok = symalg.same(inner_g, inner_w)[0]
    rep.instance("R09g", GP, "GridPoints._set_ir_qpoints", "ir_qpoints = (grid_address[ir_grid_points] + is_shift / 2) / mesh", ok, "the coordinates of the irreducible q-points are not (address + half shift) / mesh: the phonons are evaluated at other points than the ones the weights belong to", line=si.lineno)
    # (2) generic shift
    init = core.find_def(GP, "GridPoints.__init__")
    aug = [a for a in ast.walk(init) if isinstance(a, ast.AugAssign) and core.src(a.target) == "self._ir_qpoints"]
    ok2 = len(aug) == 1 and isinstance(aug[0].op, ast.Add) and symalg.same(symalg.open_expr(core.src(aug[0].value)), symalg.open_expr("q_mesh_shift / self._mesh"))[0]
    rep.instance("R09g", GP, "GridPoints.__init__", core.norm(core.src(aug[0]), 60) if aug else "<vanished>", ok2, "a general shift is not added as shift / mesh to the unshifted grid", line=init.lineno)
    # (3) shift flags over the finite domain
    sb = core.find_def(GP, "GridPoints._shift2boolean")
    defs = {}
    for st in ast.walk(sb):
        if isinstance(st, ast.Assign) and isinstance(st.targets[0], ast.Name):
            defs.setdefault(st.targets[0].id, []).append(st)
    tests = [n for n in sb.body if isinstance(n, ast.If) and "diffby2" in core.src(n.test)]
    bad = []
    try:
        if len(tests) != 1 or "diffby2" not in defs or "diff" not in defs:
            raise KeyError("shape")
        inner = [n for n in tests[0].body if isinstance(n, ast.If)]
        if len(inner) != 1 or core.src(inner[0].test) != "is_gamma_center":
            raise KeyError("gamma branch")
        gamma_expr = [st.value for st in inner[0].body if isinstance(st, ast.Assign) and core.src(st.targets[0]) == "is_shift"][0]
        mp_expr = [st.value for st in inner[0].orelse if isinstance(st, ast.Assign) and core.src(st.targets[0]) == "is_shift"][0]
        else_none = [st for st in tests[0].orelse if isinstance(st, ast.Assign) and core.src(st.targets[0]) == "is_shift" and isinstance(st.value, ast.Constant) and st.value.value is None]
        for shift in (0.0, 0.5, 1.0, -0.5, 0.25, 0.3):
            for mesh in (3, 4):
                env = {"shift": shift, "self._mesh": mesh}
                env["diffby2"] = _fold(defs["diffby2"][0].value, env)
                half = bool(_fold(tests[0].test, env))
                want_half = shift in (0.0, 0.5, 1.0, -0.5)
                if half != want_half:
                    bad.append((shift, mesh, "zero-or-half test", half))
                    continue
                if not half:
                    continue
                env["diff"] = _fold(defs["diff"][0].value, env)
                is_half = abs(shift - round(shift)) > 0.25
                g = bool(_fold(gamma_expr, env))
                m = bool(_fold(mp_expr, env))
                if g != is_half:
                    bad.append((shift, mesh, "Gamma-centred", g))
                if m != (is_half != (mesh % 2 == 0)):
                    bad.append((shift, mesh, "Monkhorst-Pack", m))
        if not else_none:
            bad.append(("other", "-", "general shift must give None", "missing"))
        rep.instance("R09g", GP, "GridPoints._shift2boolean", "half-shift flags over shift in {0, 1/2, 1, -1/2, 1/4, 0.3} x mesh parity x centring", not bad,
                     f"the half-shift flag is wrong for (shift, mesh, scheme, got) = {bad[:3]}: the grid handed to the symmetry search is not the grid the q-points are generated on", line=sb.lineno)
    except (KeyError, IndexError) as ex_:
        rep.unknown(f"R09g: _shift2boolean is not in the tabulated form ({ex_})")
    # (4) length2mesh: the same pair discipline as _has_mesh_symmetry
    lm = core.find_def(GP, "length2mesh")
    # by role: the list of three pairwise mesh-number comparisons, whatever it is called
    me_st = [st for st in ast.walk(lm) if isinstance(st, ast.Assign) and isinstance(st.value, ast.List) and len(st.value.elts) == 3 and all(isinstance(x, ast.Compare) for x in st.value.elts)]
    me = [st.value for st in me_st]
    me_name = core.src(me_st[0].targets[0]) if me_st else "mesh_equiv"
    eq_st = [st for st in ast.walk(lm) if isinstance(st, ast.Assign) and isinstance(st.value, ast.Call) and core.src(st.value.func) == "get_lattice_vector_equivalence"]
    eq_name = core.src(eq_st[0].targets[0]) if eq_st else "reclat_equiv"
    loops = [lp for lp in ast.walk(lm) if isinstance(lp, ast.For) and isinstance(lp.iter, ast.Call) and core.src(lp.iter.func) == "enumerate"]
    ok4 = False
    if len(me) == 1 and len(me[0].elts) == 3 and len(loops) == 1:
        pairs_c = []
        for el in me[0].elts:
            idx = sorted(int(core.src(x.slice)) for x in ast.walk(el) if isinstance(x, ast.Subscript) and isinstance(x.slice, ast.Constant))
            pairs_c.append(frozenset(idx))
        it = loops[0].iter.args[0]
        pairs_l = [frozenset(int(core.src(x)) for x in el.elts) for el in it.elts] if isinstance(it, (ast.Tuple, ast.List)) else []
        iv = core.src(loops[0].target.elts[0]) if isinstance(loops[0].target, ast.Tuple) else "?"
        cond = [n for n in loops[0].body if isinstance(n, ast.If)]
        ok_idx = len(cond) == 1 and core.src(cond[0].test).replace(" ", "").replace("(", "").replace(")", "") == f"{eq_name}[{iv}]andnot{me_name}[{iv}]"
        ok4 = pairs_c == PAIRS and pairs_l == PAIRS and ok_idx
    rep.instance("R09g", GP, "length2mesh", "mesh numbers of exactly the lattice-equivalent pairs (b~c, c~a, a~b) are aligned", ok4, "length2mesh compares or aligns the mesh numbers of the wrong pair of axes: the suggested mesh breaks the symmetry the reduction relies on", line=lm.lineno)
    t = [core.src(c.args[0]) for c in ast.walk(lm) if isinstance(c, ast.Call) and core.src(c.func) == "get_lattice_vector_equivalence" and c.args]
    o = None
    for c in ast.walk(lm):
        if isinstance(c, ast.Call) and core.src(c.func) == "get_lattice_vector_equivalence" and c.args:
            o = _orientation(c.args[0], "rotations") or _orientation(c.args[0], "np.array(rotations)")
    rep.instance("R09g", GP, "length2mesh", f"lattice equivalence from {t}", o in ("transposed", None) and bool(t), "length2mesh tests the equivalence of the reciprocal axes with untransposed rotations", line=lm.lineno)
    ln = [st for st in ast.walk(lm) if isinstance(st, ast.Assign) and isinstance(st.targets[0], ast.Name) and "np.rint" in core.src(st.value)]
    trl = symalg.OpenPyTranslator(where="length2mesh")
    envl = trl.summary(lm)
    ok_n = False
    if ln:
        got_n = envl.get(core.src(ln[0].targets[0]))
        want_n = symalg.open_expr("np.rint(get_cell_parameters(np.linalg.inv(lattice).T) * length).astype(int)")
        ok_n = got_n is not None and (symalg.same(got_n, want_n)[0] or symalg.same(trl.expr(ln[0].value, envl), want_n)[0])
    rep.instance("R09g", GP, "length2mesh", core.norm(core.src(ln[0]), 70) if ln else "<vanished>", ok_n, "mesh numbers are not rint(|a*| * length)", line=lm.lineno, nontrivial=False)


def _r09b(rep):
    init = core.find_def(GP, "GridPoints.__init__")

    def classify(s):
        if isinstance(s, ast.Assign):
            t = core.src(s.targets[0])
            if t == "self._is_mesh_symmetry" and isinstance(s.value, ast.Constant) and s.value.value is False:
                return "dirty"
            if t == "self._is_time_reversal" and isinstance(s.value, ast.Constant) and s.value.value is False:
                return "clean"
        return None

    ts = pycfg.Typestate(init, classify, probe=lambda s: isinstance(s, ast.Expr) and isinstance(s.value, ast.Call) and core.src(s.value.func) == "self._set_grid_points")
    ts.run()
    if not ts.probed:
        raise AnalysisError("GridPoints.__init__: call of self._set_grid_points() vanished")
    bad = [(s, w) for s, w in ts.probed if pycfg.Typestate.MARK not in w.defined]
    rep.instance("R09b", GP, "GridPoints.__init__", f"{len(ts.probed)} path(s) reach self._set_grid_points(); mesh symmetry forced off => time reversal forced off", not bad,
                 f"on the path [{', '.join(f'{t}={v}' for t, v in sorted(bad[0][1].facts)) if bad else ''}] the constructor turns mesh symmetry off (generic shift) but still hands time reversal to the symmetry search: q+s is paired with -q+s, which is not its time-reversed image",
                 line=bad[0][0].lineno if bad else init.lineno)
    sg = core.find_def(GP, "GridPoints._set_grid_points")
    calls = [c for c in ast.walk(sg) if isinstance(c, ast.Call) and core.src(c.func) == "self._set_ir_qpoints"]
    kws = [{k.arg: core.src(k.value) for k in c.keywords} for c in calls]
    rep.instance("R09b", GP, "GridPoints._set_grid_points", f"{len(calls)} arms pass is_time_reversal={sorted({k.get('is_time_reversal') for k in kws})}", len(calls) == 2 and all(k.get("is_time_reversal") == "self._is_time_reversal" for k in kws),
                 "an arm of the symmetry on/off switch does not pass the object's time-reversal flag", line=sg.lineno)
    n = 0
    for rel, cls in ((MESH, "MeshBase"), (MESH, "IterMesh"), (MESH, "Mesh")):
        try:
            c = core.find_def(rel, cls)
        except AnalysisError:
            continue
        for call in ast.walk(c):
            if isinstance(call, ast.Call) and core.src(call.func) == "GridPoints":
                kw = {k.arg: core.src(k.value) for k in call.keywords}
                n += 1
                rep.instance("R09b", rel, core.qualname_of(call), f"GridPoints(is_time_reversal={kw.get('is_time_reversal')}, is_mesh_symmetry={kw.get('is_mesh_symmetry')})",
                             kw.get("is_time_reversal") in ("is_time_reversal and is_mesh_symmetry", "is_mesh_symmetry and is_time_reversal") and kw.get("is_mesh_symmetry") == "is_mesh_symmetry",
                             "the mesh passes time reversal on while mesh symmetry is off: the 'unreduced' mesh is still halved", line=call.lineno)
    if n < 1:
        raise AnalysisError("R09b: GridPoints(...) construction in phonon/mesh.py vanished")


def _r09c(rep):
    im = core.find_def(API, "Phonopy.init_mesh")
    calls = [c for c in ast.walk(im) if isinstance(c, ast.Call) and core.src(c.func) in ("Mesh", "IterMesh")]
    rots = {core.src(c.func): {k.arg: core.src(k.value) for k in c.keywords}.get("rotations") for c in calls}
    rep.instance("R09c", API, "Phonopy.init_mesh", f"rotations passed: {rots}", len(rots) == 2 and len(set(rots.values())) == 1 and "pointgroup_operations" in str(list(rots.values())[0]),
                 "stored and iterated meshes receive different rotations", line=im.lineno)
    si = core.find_def(GP, "GridPoints._set_ir_qpoints")
    calls = [c for c in ast.walk(si) if isinstance(c, ast.Call) and core.src(c.func).endswith("get_stabilized_reciprocal_mesh")]
    if not calls:
        raise AnalysisError("R09c: call of get_stabilized_reciprocal_mesh vanished")
    c0 = calls[0]
    kws = {k.arg: k.value for k in c0.keywords}
    rot_arg = c0.args[1] if len(c0.args) > 1 else kws.get("rotations")
    ok = rot_arg is not None and _orientation(rot_arg, "rotations") == "as-is" and core.src(kws.get("is_shift")) == "self._is_shift" if kws.get("is_shift") is not None else False
    rep.instance("R09c", GP, "GridPoints._set_ir_qpoints", core.norm(core.src(c0), 100), ok,
                 "the symmetry library does not receive the rotations as given (real-space, untransposed) together with the object's shift", line=si.lineno)
    hs = core.find_def(GP, "GridPoints._has_mesh_symmetry")
    eqc = [c for c in ast.walk(hs) if isinstance(c, ast.Call) and core.src(c.func) == "get_lattice_vector_equivalence" and c.args]
    if not eqc:
        raise AnalysisError("R09c: call of get_lattice_vector_equivalence vanished")
    o = _orientation(eqc[0].args[0], "self._rotations")
    if o is None:
        rep.unknown(f"R09c: orientation of {core.src(eqc[0].args[0])} not recognised")
    rep.instance("R09c", GP, "GridPoints._has_mesh_symmetry", core.src(eqc[0]), o in ("transposed", None),
                 "the lattice-vector equivalence test no longer receives the transposed (reciprocal-space) rotations", line=hs.lineno)
    _r09f(rep, hs)


def _orientation(e, source):
    """'as-is' | 'transposed' | None for an expression built from the rotation stack `source`."""
    t = core.src(e)
    if t == source:
        return "as-is"
    if isinstance(e, ast.UnaryOp) and isinstance(e.op, (ast.USub, ast.UAdd)):
        return _orientation(e.operand, source)
    if isinstance(e, ast.Call) and core.src(e.func) in ("np.array", "np.asarray", "list") and e.args:
        return _orientation(e.args[0], source)
    if isinstance(e, ast.ListComp) and len(e.generators) == 1 and isinstance(e.generators[0].target, ast.Name) and _orientation(e.generators[0].iter, source) == "as-is":
        v = e.generators[0].target.id
        elt = e.elt
        while isinstance(elt, ast.UnaryOp) and isinstance(elt.op, (ast.USub, ast.UAdd)):
            elt = elt.operand
        el = core.src(elt)
        if el == v:
            return "as-is"
        if el in (f"{v}.T", f"np.transpose({v})", f"{v}.transpose()"):
            return "transposed"
        return None
    if isinstance(e, ast.Call):
        f = core.src(e.func)
        if f == "np.transpose" and len(e.args) == 2 and core.src(e.args[1]).replace(" ", "") in ("(0,2,1)", "[0,2,1]"):
            return {"as-is": "transposed", "transposed": "as-is"}.get(_orientation(e.args[0], source))
        if isinstance(e.func, ast.Attribute) and e.func.attr in ("transpose", "swapaxes"):
            args = [core.src(a) for a in e.args]
            if (e.func.attr == "transpose" and args in (["0", "2", "1"], ["(0, 2, 1)"])) or (e.func.attr == "swapaxes" and sorted(args) in (["1", "2"], ["-1", "-2"])):
                return {"as-is": "transposed", "transposed": "as-is"}.get(_orientation(e.func.value, source))
    return None


PAIRS = [frozenset((1, 2)), frozenset((2, 0)), frozenset((0, 1))]  # order of get_lattice_vector_equivalence: (b==c, c==a, a==b)


def _r09f(rep, hs):
    """What a rotation exchanging two axes must preserve is compared for exactly that pair of axes: mesh number and half-shift flag."""
    defs = {}
    for st in ast.walk(hs):
        if isinstance(st, ast.Assign) and len(st.targets) == 1 and isinstance(st.targets[0], ast.Name):
            defs[st.targets[0].id] = st.value

    def base(e):
        seen = 0
        while isinstance(e, ast.Name) and e.id in defs and seen < 5:
            e = defs[e.id]
            seen += 1
        return core.src(e)

    def facts(e):
        """set of (base, frozenset(index pair)) equalities required by expression e"""
        out = set()
        for c in ast.walk(e):
            if isinstance(c, ast.Compare) and len(c.ops) == 1 and isinstance(c.ops[0], ast.Eq):
                l, r = c.left, c.comparators[0]
                if isinstance(l, ast.Subscript) and isinstance(r, ast.Subscript) and isinstance(l.slice, ast.Constant) and isinstance(r.slice, ast.Constant) and base(l.value) == base(r.value):
                    out.add((base(l.value), frozenset((l.slice.value, r.slice.value))))
        return out

    def elements(e, depth=0):
        if depth > 6:
            return None
        if isinstance(e, ast.Name) and e.id in defs:
            return elements(defs[e.id], depth + 1)
        if isinstance(e, (ast.List, ast.Tuple)) and len(e.elts) == 3:
            return [facts(x) for x in e.elts]
        if isinstance(e, ast.Call) and core.src(e.func) in ("np.array", "np.asarray", "list") and e.args:
            return elements(e.args[0], depth + 1)
        if isinstance(e, ast.Call) and core.src(e.func) == "np.logical_and" and len(e.args) == 2:
            a, b = elements(e.args[0], depth + 1), elements(e.args[1], depth + 1)
            return [x | y for x, y in zip(a, b)] if a and b else None
        if isinstance(e, ast.BinOp) and isinstance(e.op, ast.BitAnd):
            a, b = elements(e.left, depth + 1), elements(e.right, depth + 1)
            return [x | y for x, y in zip(a, b)] if a and b else None
        return None

    rets = [r for r in ast.walk(hs) if isinstance(r, ast.Return) and r.value is not None and not isinstance(r.value, ast.Constant)]
    ext = [c for r in rets for c in ast.walk(r.value) if isinstance(c, ast.Call) and core.src(c.func) == "np.extract" and len(c.args) == 2]
    if not ext:
        raise AnalysisError("R09f: GridPoints._has_mesh_symmetry no longer returns np.extract(<axis equivalence>, <compatibility>).all()")
    sel = ext[0].args[0]
    sel_ok = any(isinstance(c, ast.Call) and core.src(c.func) == "get_lattice_vector_equivalence" for c in ast.walk(defs.get(sel.id, sel) if isinstance(sel, ast.Name) else sel))
    el = elements(ext[0].args[1])
    if el is None and sel_ok:
        # another spelling (vectorised): evaluate the compatibility flags on symbolic mesh numbers and shift flags;
        # each must be a conjunction of equalities between two axes
        from engine import symnp

        msym = [sp.Symbol(f"m{i}") for i in range(3)]
        ssym = [sp.Symbol(f"s{i}") for i in range(3)]
        evl = symnp.Evaluator({"self._mesh": msym, "self._is_shift": ssym}, where="GridPoints._has_mesh_symmetry")
        symnp.run_block(evl, symnp.backward_slice([st for st in hs.body if not isinstance(st, (ast.If, ast.Return))], ext[0].args[1], opaque=("np",)))
        flags = evl.ev(ext[0].args[1])
        if symnp.shape(flags) != (3,):
            raise AnalysisError(f"R09f: the compatibility flags of _has_mesh_symmetry have shape {symnp.shape(flags)}")
        el = []
        for fl in flags:
            got_ = set()
            for atom in (fl.args if isinstance(fl, sp.And) else [fl]):
                if not (isinstance(atom, sp.Eq) and all(isinstance(x, sp.Symbol) for x in atom.args)):
                    raise AnalysisError(f"R09f: compatibility flag '{fl}' is not a conjunction of equalities between axes")
                a_, b_ = (str(x) for x in atom.args)
                if a_[0] != b_[0]:
                    raise AnalysisError(f"R09f: compatibility flag '{fl}' compares a mesh number with a shift flag")
                got_.add(("self._mesh" if a_[0] == "m" else "self._is_shift", frozenset((int(a_[1]), int(b_[1])))))
            el.append(got_)
    if el is None or not sel_ok:
        raise AnalysisError("R09f: the compatibility list of _has_mesh_symmetry is not a three-element list of comparisons")
    for k, (want, got) in enumerate(zip(PAIRS, el)):
        name = ("b~c", "c~a", "a~b")[k]
        for attr, what in (("self._mesh", "mesh numbers"), ("self._is_shift", "half-shift flags")):
            rep.instance("R09f", GP, "GridPoints._has_mesh_symmetry", f"{name}: {what} of axes {sorted(want)} compared", (attr, want) in got,
                         f"when a point-group rotation exchanges axes {sorted(want)} the {what} of these two axes are not required to be equal: the rotation does not map the (shifted) grid onto itself, grid points are paired with points that are not symmetry-related and weighted mesh sums differ from the full mesh (e.g. tetragonal cell with unique axis a, half shift on b only)", line=hs.lineno)


def _weighted_loop(fn, weights_attr="self._weights"):
    """Loops whose target includes a weight bound from zip(..., weights) / enumerate(weights)."""
    out = []
    for lp in ast.walk(fn):
        if isinstance(lp, ast.For) and weights_attr in core.src(lp.iter):
            out.append(lp)
    return out


def _r09d(rep):
    TP = "phonopy/phonon/thermal_properties.py"
    fn = core.find_def(TP, "ThermalPropertiesBase._calculate_thermal_property")
    n = 0
    for lp in _weighted_loop(fn):
        names = [x.id for x in ast.walk(lp.target) if isinstance(x, ast.Name)]
        wname = names[-1]
        accs = [s for s in ast.walk(lp) if isinstance(s, ast.AugAssign) and isinstance(s.op, ast.Add)]
        for a in accs:
            n += 1
            tr = symalg.OpenPyTranslator(where="tp")
            v = tr.expr(a.value, {})
            wsym = symalg.open_expr(wname)
            lin = v.has(wsym) and not (v / wsym).has(wsym)
            rep.instance("R09d", TP, "ThermalPropertiesBase._calculate_thermal_property", core.norm(core.src(a), 90), lin,
                         f"the contribution of a q-point is not multiplied (exactly once) by its weight '{wname}'", line=a.lineno)
    if n < 2:
        raise AnalysisError("R09d: weighted accumulations in _calculate_thermal_property vanished")
    for meth in ("run_free_energy", "run_heat_capacity", "run_entropy"):
        m = core.find_def(TP, f"ThermalPropertiesBase.{meth}")
        rets = [r for r in ast.walk(m) if isinstance(r, ast.Return)]
        e = symalg.open_expr(core.src(rets[0].value))
        import sympy as sp

        num, den = sp.fraction(sp.together(e))
        rep.instance("R09d", TP, f"ThermalPropertiesBase.{meth}", core.src(rets[0]), den == symalg.open_expr("np.sum(self._weights)"),
                     "the mesh sum is not normalised by the sum of weights (the number of grid points)", line=rets[0].lineno)
    _r09e(rep)
    # consumers that need the unreduced mesh
    api = core.find_def(API, "Phonopy")
    for meth in ("run_projected_dos", "run_thermal_displacements", "run_thermal_displacement_matrices", "init_dynamic_structure_factor"):
        m = [x for x in api.body if isinstance(x, ast.FunctionDef) and x.name == meth]
        if not m:
            raise AnalysisError(f"anchor vanished: Phonopy.{meth}")
        m = m[0]
        tests = [core.src(i.test) for i in ast.walk(m) if isinstance(i, ast.If) and any(isinstance(b, ast.Raise) for b in i.body)]
        has_eig = any("with_eigenvectors" in t for t in tests)
        has_full = any("np.prod" in t and "ir_grid_points" in t and "!=" in t for t in tests)
        # the guards precede the construction of the consumer
        cons = [s for s in ast.walk(m) if isinstance(s, ast.Assign) and isinstance(s.value, ast.Call) and core.src(s.targets[0]).startswith("self._") and isinstance(s.value.func, ast.Name) and s.value.func.id[0].isupper()]
        guards = [i for i in ast.walk(m) if isinstance(i, ast.If) and any(isinstance(b, ast.Raise) for b in i.body) and ("np.prod" in core.src(i.test) or "with_eigenvectors" in core.src(i.test))]
        before = all(g.lineno < c.lineno for g in guards for c in cons) if cons and guards else bool(guards)
        rep.instance("R09d", API, f"Phonopy.{meth}", f"raises unless eigenvectors were kept and prod(mesh) == number of ir points ({len(guards)} guards)", has_eig and has_full and before,
                     "a consumer that sums eigenvector-dependent quantities can be started on a symmetry-reduced mesh (its weights do not carry the rotation of eigenvectors)", line=m.lineno)


QSCOPE = [
    # file, class, method, where the result lands ("return" or attribute), extra seeds, element-wise callees
    ("phonopy/phonon/moment.py", "PhononMoment", "_get_moment", "self._moment"),
    ("phonopy/phonon/moment.py", "PhononMoment", "_get_projected_moment", "self._moment"),
    ("phonopy/phonon/dos.py", "TotalDos", "run", "self._dos"),
    ("phonopy/phonon/dos.py", "ProjectedDos", "_run_smearing_method", "self._projected_dos"),
    ("phonopy/phonon/dos.py", "ProjectedDos", "_run_tetrahedron_method", "self._projected_dos"),
    ("phonopy/phonon/thermal_properties.py", "ThermalPropertiesBase", "run_free_energy", "return"),
    ("phonopy/phonon/thermal_properties.py", "ThermalPropertiesBase", "run_heat_capacity", "return"),
    ("phonopy/phonon/thermal_properties.py", "ThermalPropertiesBase", "run_entropy", "return"),
    ("phonopy/phonon/thermal_properties.py", "ThermalProperties", "__init__", "self._zero_point_energy"),
]


def _r09e(rep):
    from engine import qaxis
    from engine.qaxis import V

    seeds = {
        "self._frequencies": V(("q", "b")),
        "self._weights": V(("q",), True, 1),
        "self._eigenvectors": V(("q", "i", "b")),
        "self._eigvecs2": V(("q", "i", "b")),
        # iterating the tetrahedron mesh yields, per irreducible q-point, integration weights already divided by the number of grid points
        "self._tetrahedron_mesh": V(("q", "f", "b"), False, -1),
        "self._frequency_points": V(("f",)),
    }
    elementwise = {"func", "calc", "mode_F", "mode_S", "mode_cv", "mode_zero"}
    for rel, cn, mn, where in QSCOPE:
        cls = core.find_def(rel, cn)
        methods = {m.name: m for m in cls.body if isinstance(m, ast.FunctionDef)}
        if mn not in methods:
            raise AnalysisError(f"anchor vanished: {cn}.{mn}")
        ty = qaxis.QTyper(methods[mn], seeds, methods, elementwise)
        problems = ty.run()
        for u in ty.unknown:
            rep.unknown(f"R09e {cn}.{mn}: {u}")
        if where == "return":
            res = qaxis.merge_returns(ty.returns)
        else:
            res = ty.stores.get(where)
        if not problems and not ty.reductions:
            raise AnalysisError(f"R09e: no sum over q recognised in {cn}.{mn} (the consumer changed shape; re-anchor the rule)")
        rep.instance("R09e", rel, f"{cn}.{mn}", f"{len(ty.reductions)} weighted sum(s) over q", not problems,
                     (problems[0].message if problems else "") + ": on a symmetry-reduced mesh the result differs from the full-mesh one", line=(problems[0].node.lineno if problems else methods[mn].lineno))
        if isinstance(res, V) and res.deg is not None:
            rep.instance("R09e", rel, f"{cn}.{mn}", f"{where} is homogeneous of degree 0 in the weights", res.deg == 0,
                         f"{where} scales like weights^{res.deg}: the mesh sum is not normalised by the sum of weights", line=methods[mn].lineno)
        else:
            rep.unknown(f"R09e {cn}.{mn}: degree of {where} in the weights not determined")



def _r09h(rep):
    """Which reciprocal axes a rotation exchanges: decided for a generic integer matrix, signs included."""
    from engine import symnp

    SYM = "phonopy/structure/symmetry.py"
    rep.rule("R09h", "lattice-vector equivalence: for a generic rotation r, flag k of get_lattice_vector_equivalence is set exactly when the absolute value of column i of r is the unit vector j or that of column j is the unit vector i, (i, j) = (1, 2), (2, 0), (0, 1) for k = 0, 1, 2 -- so that a -> -b counts like a -> b (symbolic evaluation of the function body on a 3x3 matrix of symbols; Boolean equivalence over the atoms |r_mc| == 0/1)", 3)
    fn = core.find_def(SYM, "get_lattice_vector_equivalence")
    par = fn.args.args[0].arg
    R = symnp.matrix("r", 3, 3)
    ev = symnp.Evaluator({}, where=f"{SYM}::get_lattice_vector_equivalence")
    result = {}

    def literal_tuple(node):
        try:
            return ast.literal_eval(node)
        except Exception:
            return None

    def bind(target, value):
        if isinstance(target, ast.Name):
            ev.env[target.id] = value
        elif isinstance(target, ast.Tuple) and isinstance(value, (tuple, list)) and len(value) == len(target.elts):
            for t_, v_ in zip(target.elts, value):
                bind(t_, v_)
        else:
            raise AnalysisError(f"{SYM}: cannot bind {core.src(target)}")

    def block(stmts, conds):
        for st in stmts:
            if isinstance(st, ast.Expr) and isinstance(st.value, ast.Constant):
                continue
            if isinstance(st, ast.Assign) and len(st.targets) == 1 and isinstance(st.targets[0], ast.Name):
                ev.env[st.targets[0].id] = ev.ev(st.value)
            elif isinstance(st, ast.Assign) and len(st.targets) == 1 and isinstance(st.targets[0], ast.Subscript) and isinstance(st.targets[0].value, ast.Name):
                lst = ev.env.get(st.targets[0].value.id)
                ix = st.targets[0].slice
                k = ix.value if isinstance(ix, ast.Constant) else ev.env.get(getattr(ix, "id", None))
                val = ev.ev(st.value)
                if not isinstance(lst, list) or not isinstance(k, int) or isinstance(val, list):
                    raise AnalysisError(f"{SYM}: store '{core.src(st)}' outside the modelled fragment")
                c = sp.And(*conds) if conds else sp.true
                lst[k] = sp.Or(sp.And(c, val), sp.And(sp.Not(c), lst[k]))
            elif isinstance(st, ast.If):
                c = ev.ev(st.test)
                if isinstance(c, list):
                    raise AnalysisError(f"{SYM}: truth value of an array in '{core.src(st.test)}'")
                block(st.body, conds + [c])
                block(st.orelse, conds + [sp.Not(c)])
            elif isinstance(st, ast.For):
                it = st.iter
                if isinstance(it, ast.Name) and it.id == par:
                    bind(st.target, R)
                    block(st.body, conds)
                    continue
                seq = None
                if isinstance(it, ast.Call) and core.src(it.func) == "enumerate" and len(it.args) == 1:
                    inner = literal_tuple(it.args[0])
                    if inner is None and isinstance(it.args[0], ast.Name) and it.args[0].id == par:
                        bind(st.target, (0, R))
                        block(st.body, conds)
                        continue
                    seq = list(enumerate(inner)) if inner is not None else None
                elif isinstance(it, ast.Call) and core.src(it.func) == "range" and all(isinstance(a, ast.Constant) for a in it.args):
                    seq = list(range(*[a.value for a in it.args]))
                else:
                    seq = literal_tuple(it)
                    seq = list(seq) if seq is not None else None
                if seq is None:
                    raise AnalysisError(f"{SYM}: loop over '{core.src(it)}' outside the modelled fragment")
                for item in seq:
                    bind(st.target, item)
                    block(st.body, conds)
            elif isinstance(st, ast.Return):
                result["ret"] = ev.ev(st.value)
            else:
                raise AnalysisError(f"{SYM}: statement '{core.norm(core.src(st), 50)}' outside the modelled fragment")

    block(fn.body, [])
    got = result.get("ret")
    if not isinstance(got, list) or len(got) != 3:
        raise AnalysisError(f"{SYM}: get_lattice_vector_equivalence does not return three flags")
    pairs = ((1, 2), (2, 0), (0, 1))
    # atoms as opaque propositions
    atoms = {}

    def prop(e):
        return e.replace(lambda x: isinstance(x, (sp.Eq, sp.Ne)), lambda x: atoms.setdefault((sp.Eq(*x.args, evaluate=False) if isinstance(x, sp.Ne) else x), sp.Symbol(f"p{len(atoms)}")) if isinstance(x, sp.Eq) else sp.Not(atoms.setdefault(sp.Eq(*x.args, evaluate=False), sp.Symbol(f"p{len(atoms)}"))))

    from sympy.logic.inference import satisfiable

    for k, (i, j) in enumerate(pairs):
        def col_is(c, d):
            return sp.And(*[sp.Eq(sp.Abs(R[m][c]), sp.Integer(1 if m == d else 0), evaluate=False) for m in range(3)])

        want = sp.Or(col_is(i, j), col_is(j, i))
        g, w = prop(sp.sympify(got[k])), prop(want)
        same = satisfiable(sp.Xor(g, w)) is False
        rep.instance("R09h", SYM, "get_lattice_vector_equivalence", f"flag {k}: |column {i}| == e_{j} or |column {j}| == e_{i}", same,
                     f"for a generic rotation the flag of the axis pair ({'abc'[i]}, {'abc'[j]}) is set under '{core.norm(str(got[k]), 120)}', which is not '|r[:, {i}]| == e_{j} or |r[:, {j}]| == e_{i}': an exchange with a sign (a -> -b, as in C2, Cm, Amm2 settings) is not recognised, the mesh is reduced by rotations it is not invariant under, and the orbits and weights are wrong", line=fn.lineno)



_MINUS_Q_CONTROL = '''
def bad(self):
    mesh = np.array(self._mesh)
    address = -np.array(self._gp.grid_address) % mesh
    return np.dot(address, [1, mesh[0], mesh[0] * mesh[1]])

def good(self):
    mesh = np.array(self._mesh)
    address = (-np.array(self._gp.grid_address) - self._gp.is_shift) % mesh
    return np.dot(address, [1, mesh[0], mesh[0] * mesh[1]])
'''


def _minus_q_sites(tree):
    """[(function, negation node, ok)]: grid addresses negated to address the point -q"""
    out = []
    for fn in [x for x in ast.walk(tree) if isinstance(x, ast.FunctionDef)]:
        asg = {}
        for st in ast.walk(fn):
            if isinstance(st, ast.Assign) and len(st.targets) == 1 and isinstance(st.targets[0], ast.Name):
                asg.setdefault(st.targets[0].id, []).append(st.value)

        def mentions(e, words, depth=0):
            for x in ast.walk(e):
                txt = x.attr if isinstance(x, ast.Attribute) else (x.id if isinstance(x, ast.Name) else None)
                if txt and any(w in txt.lower() for w in words):
                    return True
                if isinstance(x, ast.Name) and x.id in asg and depth < 3:
                    if any(mentions(v, words, depth + 1) for v in asg[x.id]):
                        return True
            return False

        for x in ast.walk(fn):
            neg = None
            if isinstance(x, ast.UnaryOp) and isinstance(x.op, ast.USub) and mentions(x.operand, ("grid_address", "address")) and not isinstance(x.operand, ast.Constant):
                neg = x
            elif isinstance(x, ast.BinOp) and isinstance(x.op, ast.Sub) and isinstance(x.left, ast.Constant) and x.left.value == 0 and mentions(x.right, ("grid_address",)):
                neg = x
            if neg is None or core.enclosing_function(neg) is not fn and getattr(neg, "_parent", None) is not None and core.enclosing_function(neg) is not None and core.enclosing_function(neg) is not fn:
                continue
            if not mentions(neg, ("grid_address",)):
                continue
            # the statement the negation belongs to: the half-shift must take part in it
            st = neg
            while getattr(st, "_parent", None) is not None and not isinstance(st, ast.stmt):
                st = st._parent
            ok = mentions(st if isinstance(st, ast.stmt) else neg, ("shift",))
            out.append((fn, neg, ok))
    return out


def _r09n(rep):
    """The grid point of -q on a half-shifted mesh."""
    rep.rule("R09n", "time-reversal partners on the sampling mesh: with q = (g + s/2)/m the point -q has the address -g - s (s the half-shift flags), so any expression that negates grid addresses to find the partner of a grid point also involves the shift flags; (-g) mod m is -q only on an unshifted axis, on a Monkhorst-Pack axis with an even mesh number it is the neighbour -q + 1/m, and frequencies copied from it do not belong to the q-point they are stored for (expected count on the tree: none; the rule is kept alive by a built-in pair of examples)", 0)
    t = ast.parse(_MINUS_Q_CONTROL)
    for n_ in ast.walk(t):
        for c_ in ast.iter_child_nodes(n_):
            c_._parent = n_
    ctrl = sorted((f.name, ok) for f, _, ok in _minus_q_sites(t))
    if ctrl != [("bad", False), ("good", True)]:
        raise AnalysisError(f"R09n: the rule no longer classifies its own two examples ({ctrl})")
    for rel in ("phonopy/phonon/mesh.py", "phonopy/structure/grid_points.py", "phonopy/phonon/tetrahedron_mesh.py", "phonopy/phonon/dos.py", "phonopy/phonon/thermal_properties.py"):
        for fn, neg, ok in _minus_q_sites(core.parse(rel)):
            rep.instance("R09n", rel, core.qualname_of(fn), core.norm(core.src(neg), 80), ok,
                         f"'{core.norm(core.src(neg), 70)}' negates grid addresses without the half-shift flags: on an axis with an even mesh number and the default Monkhorst-Pack centring the address found is that of -q + 1/m, not -q; grid points are then counted twice or never in every mesh sum", line=neg.lineno)


def _r09l(rep):
    """Degree typing of the compiled mesh consumers in the multiplicities of the irreducible q-points."""
    from engine import cast

    rep.rule("R09l", "compiled mesh consumers (c/phonopy.c: thermal sums, tetrahedron DOS): every value stored into an output array, directly or through a scratch array, is homogeneous of degree 1 in the multiplicity weights[i] of its q-point -- degree typing of the C expressions: weights[.] has degree 1, data and constants degree 0, a product adds and a quotient subtracts degrees, the terms of a sum agree, arguments of calls have degree 0, a scalar or array has the degree of what is stored into it (literal zeros fit every degree)", 2)
    rel = "c/phonopy.c"
    tu = cast.load(rel)
    n_fn = 0
    for fname, fn in tu.functions.items():
        try:
            body = cast.body(fn)
        except AnalysisError:
            continue
        decls = {x.get("name"): cast.qtype(x) for x in cast.walk(fn) if x.get("kind") in ("VarDecl", "ParmVarDecl")}
        if "weights" not in decls or "*" not in decls["weights"]:
            continue
        n_fn += 1
        outputs = [p_.get("name") for p_ in cast.params(fn) if "*" in cast.qtype(p_) and not cast.qtype(p_).strip().startswith("const")]
        deg: dict = {}  # name -> 0 | 1 | 'mixed'   (absent: only literal zeros stored so far / never stored)
        notes: dict = {}

        def join(a, b):
            if a is None:
                return b
            if b is None:
                return a
            return a if a == b else "mixed"

        def d_of(e):
            """degree of an expression: int, None for a literal zero, 'mixed'"""
            e = cast.strip(e)
            k = e.get("kind")
            ks = cast.kids(e)
            if k in ("IntegerLiteral", "FloatingLiteral"):
                try:
                    return None if float(e.get("value")) == 0 else 0
                except (TypeError, ValueError):
                    return 0
            if k in ("ImplicitCastExpr", "CStyleCastExpr", "ParenExpr") and ks:
                return d_of(ks[0])
            if k == "DeclRefExpr":
                nm = e.get("referencedDecl", {}).get("name")
                return deg.get(nm, 0) if nm in deg else 0
            if k == "ArraySubscriptExpr":
                base = e
                while cast.strip(base).get("kind") == "ArraySubscriptExpr":
                    base = cast.kids(cast.strip(base))[0]
                nm = cast.ref_name(base)
                if nm == "weights":
                    return 1
                return deg.get(nm, 0)
            if k == "UnaryOperator":
                return d_of(ks[0]) if e.get("opcode") in ("-", "+") else 0
            if k == "BinaryOperator":
                op = e.get("opcode")
                a, b = d_of(ks[0]), d_of(ks[1])
                if op == "*":
                    if a is None or b is None:
                        return None
                    return "mixed" if "mixed" in (a, b) else a + b
                if op == "/":
                    if a is None:
                        return None
                    return "mixed" if "mixed" in (a, b) or b is None else a - b
                if op in ("+", "-"):
                    return join(a, b)
                return 0  # comparisons, logic
            if k == "ConditionalOperator":
                return join(d_of(ks[1]), d_of(ks[2]))
            if k == "CallExpr":
                ds = [d_of(a) for a in cast.call_args(e)]
                return 0 if all(x in (0, None) for x in ds) else "mixed"
            return 0

        stores = []
        for x in cast.walk(body):
            k = x.get("kind")
            if (k == "BinaryOperator" and x.get("opcode") == "=") or k == "CompoundAssignOperator":
                lhs = cast.strip(cast.kids(x)[0])
                base = lhs
                while cast.strip(base).get("kind") == "ArraySubscriptExpr":
                    base = cast.kids(cast.strip(base))[0]
                nm = cast.ref_name(base)
                if cast.strip(lhs).get("kind") == "DeclRefExpr" and "*" in decls.get(nm or "", ""):
                    continue  # the pointer itself is set (malloc, NULL), not what it points to
                if nm and nm != "weights":
                    stores.append((nm, x))
            elif k == "UnaryOperator" and x.get("opcode") in ("++", "--"):
                nm = cast.ref_name(cast.kids(x)[0])
                if nm:
                    stores.append((nm, x))
        for _ in range(6):  # fixpoint over the few names of a kernel
            before = dict(deg)
            for nm, x in stores:
                if x.get("kind") == "UnaryOperator":
                    deg[nm] = join(deg.get(nm), 0)
                    continue
                op = x.get("opcode")
                r = d_of(cast.kids(x)[1])
                if op in ("=", "+=", "-="):
                    if r is not None:
                        deg[nm] = join(deg.get(nm), r)
                elif op in ("*=", "/="):
                    if r not in (0, None):
                        deg[nm] = "mixed"
            if deg == before:
                break
        n_store = 0
        for nm, x in stores:
            if nm not in outputs or x.get("kind") == "UnaryOperator":
                continue
            r = d_of(cast.kids(x)[1])
            if r is None:
                continue  # a literal zero
            n_store += 1
            blame = []
            if r != 1:
                for y in cast.walk(cast.kids(x)[1]):
                    n2 = y.get("referencedDecl", {}).get("name") if y.get("kind") == "DeclRefExpr" else None
                    if n2 and deg.get(n2) == "mixed":
                        for n3, x3 in stores:
                            if n3 == n2 and x3.get("kind") != "UnaryOperator" and d_of(cast.kids(x3)[1]) not in (1, None):
                                blame.append(f"line {tu.line(x3)}: '{core.norm(cast.text(x3), 90)}' has degree {d_of(cast.kids(x3)[1])}")
            rep.instance("R09l", rel, fname, f"{core.norm(cast.text(x), 110)} : degree 1 in weights", r == 1,
                         f"'{core.norm(cast.text(x), 140)}' has degree {r} in the multiplicity of the q-point, not 1" + (" (" + "; ".join(sorted(set(blame))[:4]) + ")" if blame else "") + ": the contribution of an irreducible q-point does not stand for its whole star, and the sum over the reduced mesh differs from the sum over the full mesh wherever a weight exceeds 1", line=tu.line(x))
        if not n_store:
            raise AnalysisError(f"R09l: {fname} has the q-point weights but stores nothing that depends on them into its outputs {outputs}")
    if n_fn < 2:
        raise AnalysisError(f"R09l: {n_fn} kernels of c/phonopy.c take the q-point weights (thermal sums and tetrahedron DOS expected)")


def _r09j(rep):
    """Normalisation by the weights is global: sum over all irreducible q of w_q f_q divided by the sum of all w_q."""
    rep.rule("R09j", "the weighted mean over the irreducible q-points is normalised by the total weight: no consumer normalises with the weights of a block / slice of the q-points (np.average(..., weights=w[a:b]), division by sum(w[a:b])) and recombines the partial means by block size, which is exact only for equal weights (mesh symmetry off)", 3)
    n_inst = 0
    for rel in ("phonopy/phonon/dos.py", "phonopy/phonon/moment.py", "phonopy/phonon/thermal_properties.py", "phonopy/phonon/thermal_displacement.py"):
        tree = core.parse(rel)
        for fn in [x for x in ast.walk(tree) if isinstance(x, ast.FunctionDef)]:
            if "_weights" not in core.src(fn) and "weights" not in {a.arg for a in fn.args.args}:
                continue
            partial = set()   # locals bound to a slice / block of the weights
            changed = True
            while changed:
                changed = False
                for st in ast.walk(fn):
                    if isinstance(st, ast.Assign) and len(st.targets) == 1 and isinstance(st.targets[0], ast.Name) and st.targets[0].id not in partial:
                        v = st.value
                        is_part = isinstance(v, ast.Subscript) and (("weights" in core.src(v.value)) or (isinstance(v.value, ast.Name) and v.value.id in partial)) and any(isinstance(x, ast.Slice) and (x.lower is not None or x.upper is not None) for x in ([v.slice] if not isinstance(v.slice, ast.Tuple) else v.slice.elts))
                        if is_part:
                            partial.add(st.targets[0].id)
                            changed = True

            def is_partial(e):
                if isinstance(e, ast.Name):
                    return e.id in partial
                if isinstance(e, ast.Subscript) and "weights" in core.src(e.value):
                    return any(isinstance(x, ast.Slice) and (x.lower is not None or x.upper is not None) for x in ([e.slice] if not isinstance(e.slice, ast.Tuple) else e.slice.elts))
                return False

            sites = []
            for c in ast.walk(fn):
                if isinstance(c, ast.Call) and core.src(c.func) in ("np.average",):
                    w = [k.value for k in c.keywords if k.arg == "weights"]
                    if w:
                        sites.append((c, is_partial(w[0]), f"np.average(..., weights={core.src(w[0])})"))
                if isinstance(c, ast.BinOp) and isinstance(c.op, ast.Div):
                    den = c.right
                    if isinstance(den, ast.Call) and core.src(den.func) in ("np.sum", "sum", "float") and den.args and "weights" in core.src(den.args[0]) or (isinstance(den, ast.Call) and isinstance(den.func, ast.Attribute) and den.func.attr == "sum" and "weights" in core.src(den.func.value)):
                        arg = den.args[0] if den.args else den.func.value
                        while isinstance(arg, ast.Call) and arg.args:
                            arg = arg.args[0]
                        sites.append((c, is_partial(arg), f"... / {core.src(den)}"))
            for node, bad, text in sites:
                n_inst += 1
                rep.instance("R09j", rel, core.qualname_of(fn), text, not bad,
                             f"'{text}' normalises with the weights of a block of the q-points only: partial weighted means recombined by block size give the full-mesh result only when all weights are equal, so the quantity on the symmetry-reduced mesh differs from the one on the full mesh (the integral still comes out right)", line=node.lineno)
    if n_inst < 3:
        raise AnalysisError(f"R09j: only {n_inst} weight normalisation sites found")


_run_main = run


def run(rep: core.Report):
    _run_main(rep)
    _r09h(rep)
    _r09j(rep)
    _r09l(rep)
    _r09n(rep)
    from rules import shared_bandaxis

    shared_bandaxis.run(rep, "R09m", [("phonopy/phonon/moment.py", "PhononMoment._get_projected_moment", {})], 1)
    from rules import shared_sorted

    shared_sorted.run(rep, "R09k", ["phonopy/structure/grid_points.py", "phonopy/phonon/moment.py", "phonopy/phonon/mesh.py"])
    from rules import shared_bcast

    shared_bcast.run(rep, "R09i", [r for r in ["phonopy/structure/grid_points.py", "phonopy/phonon/moment.py", "phonopy/phonon/dos.py", "phonopy/phonon/thermal_properties.py"] if (core.REPO / r).is_file()])


def selftest():
    V = []
    b = lambda name, file, old, new, rule, expect="", **kw: V.append(dict(name=name, kind="break", file=file, old=old, new=new, rule=rule, expect=expect, **kw))
    n = lambda name, file, old, new, **kw: V.append(dict(name=name, kind="neutral", file=file, old=old, new=new, **kw))
    b("generic shift keeps time reversal", GP, "            self._is_mesh_symmetry = False\n            self._is_time_reversal = False\n", "            self._is_mesh_symmetry = False\n", "R09b", "GridPoints.__init__")
    b("mesh passes raw time reversal", MESH, "is_time_reversal=(is_time_reversal and is_mesh_symmetry),", "is_time_reversal=is_time_reversal,", "R09b", "GridPoints(", nth=0)
    b("weights counted over unique points only", GP, "    for gp in grid_mapping_table:\n        weights[gp] += 1", "    for gp in ir_grid_points:\n        weights[gp] += 1", "R09a", "weights")
    b("compiled heat capacity without the multiplicity", "c/phonopy.c", "                        get_heat_capacity(temperatures[j], f, classical) *\n                        weights[i];", "                        get_heat_capacity(temperatures[j], f, classical);", "R09l", "phpy_get_thermal_properties")
    V.append(dict(name="compiled thermal sums: multiplicity through an integer local", kind="neutral", edits=[
        dict(file="c/phonopy.c", old="                    tp[i * num_temp * 3 + j * 3] +=\n                        get_free_energy(temperatures[j], f, classical) *\n                        weights[i];", new="                    k_w = weights[i];\n                    tp[i * num_temp * 3 + j * 3] +=\n                        get_free_energy(temperatures[j], f, classical) *\n                        k_w;"),
        dict(file="c/phonopy.c", old="    int64_t i, j, k;\n    double f;\n    double *tp;", new="    int64_t i, j, k, k_w;\n    double f;\n    double *tp;")]))
    b("axis-pair compatibility vectorised in the order a~b, b~c, c~a", GP, "        m = self._mesh\n        s = self._is_shift\n        mesh_equiv = [\n            m[1] == m[2] and s[1] == s[2],\n            m[2] == m[0] and s[2] == s[0],\n            m[0] == m[1] and s[0] == s[1],\n        ]\n", "        grid = np.c_[self._mesh, np.array(self._is_shift, dtype=\"intc\")]\n        mesh_equiv = (grid == np.roll(grid, -1, axis=0)).all(axis=1)\n", "R09f", "_has_mesh_symmetry")
    n("axis-pair compatibility vectorised in the order b~c, c~a, a~b", GP, "        m = self._mesh\n        s = self._is_shift\n        mesh_equiv = [\n            m[1] == m[2] and s[1] == s[2],\n            m[2] == m[0] and s[2] == s[0],\n            m[0] == m[1] and s[0] == s[1],\n        ]\n", "        grid = np.c_[self._mesh, np.array(self._is_shift, dtype=\"intc\")]\n        mesh_equiv = (np.roll(grid, -1, axis=0) == np.roll(grid, -2, axis=0)).all(axis=1)\n")
    b("projected moment pairs frequencies with eigenvector rows", "phonopy/phonon/moment.py", "zip(self._frequencies[i], self._eigenvectors[i].T)", "zip(self._frequencies[i], self._eigenvectors[i])", "R09m", "_get_projected_moment")
    b("thermal sum forgets the weight", "phonopy/phonon/thermal_properties.py", "                    np.sum(func(t, freqs[cond], classical=self._classical)) * w\n", "                    np.sum(func(t, freqs[cond], classical=self._classical))\n", "R09d", "_calculate_thermal_property")
    b("thermal displacement accepts a reduced mesh", API, "        if np.prod(mesh_nums) != len(ir_grid_points):\n            msg = \"run_mesh has to be done with is_mesh_symmetry=False.\"\n            raise RuntimeError(msg)\n\n        if direction is not None:\n            projection_direction", "        if direction is not None:\n            projection_direction", "R09d", "run_thermal_displacements")
    MO = "phonopy/phonon/moment.py"
    DOS = "phonopy/phonon/dos.py"
    TPF = "phonopy/phonon/thermal_properties.py"
    b("moment normalisation counts modes without weight", MO, "                    norm0 += w\n", "                    norm0 += 1\n", "R09e", "_get_moment")
    b("projected moment forgets the weight", MO, "                    moment += freq**order * w * projection", "                    moment += freq**order * projection", "R09e", "_get_projected_moment")
    b("moment not normalised", MO, "        self._moment = moment / norm0", "        self._moment = moment", "R09e", "degree")
    b("total DOS sums q without weights", DOS, "            np.dot(self._weights, self._smearing_function.calc(self._frequencies - f))\n", "            self._smearing_function.calc(self._frequencies - f)\n", "R09e", "TotalDos.run")
    b("tetrahedron DOS forgets the weight", DOS, "                    self._dos += np.sum(iw * self._weights[i], axis=1)", "                    self._dos += np.sum(iw, axis=1)", "R09e", "TotalDos.run")
    b("projected DOS uses unnormalised weights", DOS, "        weights = self._weights / float(np.sum(self._weights))", "        weights = self._weights", "R09e", "degree")
    b("zero-point energy forgets the weight", TPF, "                zp_energy += np.sum(positive_fs) * w / 2", "                zp_energy += np.sum(positive_fs) / 2", "R09e", "ThermalProperties.__init__")
    n("moment loop vectorised", MO, "        moment = 0\n        norm0 = 0\n        for i, w in enumerate(self._weights):\n            for freq in self._frequencies[i]:\n                if self._fmin < freq and freq < self._fmax:\n                    norm0 += w\n                    moment += freq**order * w\n", "        ok = np.logical_and(self._fmin < self._frequencies, self._frequencies < self._fmax)\n        norm0 = np.dot(self._weights, ok.sum(axis=1))\n        moment = np.dot(self._weights, np.where(ok, self._frequencies**order, 0).sum(axis=1))\n")
    n("total DOS via einsum", DOS, "            np.dot(self._weights, self._smearing_function.calc(self._frequencies - f))\n", "            np.einsum('q,qb->b', self._weights, self._smearing_function.calc(self._frequencies - f))\n")
    b("shift flags not compared", GP, "            m[1] == m[2] and s[1] == s[2],", "            m[1] == m[2],", "R09f", "half-shift")
    b("mesh pair order rotated", GP, "            m[1] == m[2] and s[1] == s[2],\n            m[2] == m[0] and s[2] == s[0],\n            m[0] == m[1] and s[0] == s[1],", "            m[0] == m[1] and s[0] == s[1],\n            m[1] == m[2] and s[1] == s[2],\n            m[2] == m[0] and s[2] == s[0],", "R09f", "mesh numbers")
    n("compatibility via logical_and", GP, "        mesh_equiv = [\n            m[1] == m[2] and s[1] == s[2],\n            m[2] == m[0] and s[2] == s[0],\n            m[0] == m[1] and s[0] == s[1],\n        ]", "        mesh_equiv = np.logical_and([m[1] == m[2], m[2] == m[0], m[0] == m[1]], [s[1] == s[2], s[2] == s[0], s[0] == s[1]])")
    n("lattice equivalence through a stacked transpose", GP, "get_lattice_vector_equivalence([r.T for r in self._rotations])", "get_lattice_vector_equivalence(np.transpose(self._rotations, (0, 2, 1)))")
    b("symmetry library receives transposed rotations", GP, "            self._mesh,\n            rotations,\n            is_shift=self._is_shift,", "            self._mesh,\n            [r.T for r in rotations],\n            is_shift=self._is_shift,", "R09c", "_set_ir_qpoints")
    n("weights by bincount", GP, "    weights = np.zeros_like(grid_mapping_table)\n    for gp in grid_mapping_table:\n        weights[gp] += 1\n", "    weights = np.bincount(grid_mapping_table, minlength=len(grid_mapping_table))\n")
    n("weights by unique(return_counts)", GP, "    ir_grid_points = np.array(np.unique(grid_mapping_table), dtype=dtype)\n    weights = np.zeros_like(grid_mapping_table)\n    for gp in grid_mapping_table:\n        weights[gp] += 1\n    ir_weights = np.array(weights[ir_grid_points], dtype=dtype)", "    ir_grid_points, ir_weights = np.unique(grid_mapping_table, return_counts=True)\n    ir_grid_points = np.array(ir_grid_points, dtype=dtype)\n    ir_weights = np.array(ir_weights, dtype=dtype)")
    b("lattice equivalence with untransposed rotations", GP, "get_lattice_vector_equivalence([r.T for r in self._rotations])", "get_lattice_vector_equivalence([r for r in self._rotations])", "R09c", "_has_mesh_symmetry")
    b("q-point coordinates with a quarter shift", GP, "        shift = np.array(self._is_shift) * 0.5", "        shift = np.array(self._is_shift) * 0.25", "R09g", "_set_ir_qpoints")
    b("Monkhorst-Pack flag ignores the mesh parity", GP, "is_shift = list(np.logical_xor((diff > 0.1), (self._mesh % 2 == 0)) * 1)", "is_shift = list((diff > 0.1) * 1)", "R09g", "_shift2boolean")
    b("length2mesh aligns the wrong pair", GP, "        for i, pair in enumerate(([1, 2], [2, 0], [0, 1])):", "        for i, pair in enumerate(([0, 1], [2, 0], [1, 2])):", "R09g", "length2mesh")
    n("half-shift threshold written differently", GP, "                is_shift = list(diff > 0.1)", "                is_shift = list(diff > 0.25)")
    b("axis exchange with a sign not recognised", "phonopy/structure/symmetry.py", "        if (np.abs(r[:, 0]) == [0, 1, 0]).all():", "        if (r[:, 0] == [0, 1, 0]).all():", "R09h", "flag 2")
    b("axis pair mapped to the wrong flag", "phonopy/structure/symmetry.py", "        if (np.abs(r[:, 1]) == [0, 0, 1]).all():\n            equivalence[0] = True", "        if (np.abs(r[:, 1]) == [0, 0, 1]).all():\n            equivalence[1] = True", "R09h", "flag")
    n("equivalence test written as a loop over axis pairs", "phonopy/structure/symmetry.py", "        if (np.abs(r[:, 0]) == [0, 1, 0]).all():\n            equivalence[2] = True\n        if (np.abs(r[:, 0]) == [0, 0, 1]).all():\n            equivalence[1] = True\n        if (np.abs(r[:, 1]) == [1, 0, 0]).all():\n            equivalence[2] = True\n        if (np.abs(r[:, 1]) == [0, 0, 1]).all():\n            equivalence[0] = True\n        if (np.abs(r[:, 2]) == [1, 0, 0]).all():\n            equivalence[1] = True\n        if (np.abs(r[:, 2]) == [0, 1, 0]).all():\n            equivalence[0] = True\n", "        unit_vectors = np.eye(3, dtype=int)\n        for k, (i, j) in enumerate(((1, 2), (2, 0), (0, 1))):\n            if (np.abs(r[:, i]) == unit_vectors[j]).all() or (np.abs(r[:, j]) == unit_vectors[i]).all():\n                equivalence[k] = True\n")
    return V
