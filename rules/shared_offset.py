"""Shared rule (C12 R12y.offset): a running offset advances on every pass of its loop.

``pos = 0; for deg in deg_sets: gv[pos : pos + len(deg)] = f(deg); pos += len(deg)`` places the result of each group
behind the results of the groups before it.  An early ``continue`` inserted before ``pos += len(deg)`` ("this group is
zeroed later anyway") leaves the offset where it was: every later group is written too low by the size of the skipped
ones, the last rows keep their initial value, and nothing raises.

Instances: ``for`` loops in which a name is (a) advanced at the top level of the loop body by an amount that depends on
the item of the pass (``pos += len(item)``; a counter ``n += 1`` of stored items may stand still on a skipped pass) and
(b) used inside a subscript in the same body -- a running offset.  Reported when a
``continue`` that belongs to this loop occurs in a statement before the advance (so that a pass can end without it);
an offset that is deliberately not advanced for skipped items has nothing stored at it on that pass, which the rule
cannot tell apart -- the tree has no such loop, and a built-in example keeps the rule alive.
"""

from __future__ import annotations

import ast

from engine import core
from engine.core import AnalysisError


def _own_continues(stmt, loop):
    """continue statements inside stmt that end a pass of ``loop`` (not of a nested loop)"""
    out = []

    def walk(n, depth):
        for c in ast.iter_child_nodes(n):
            if isinstance(c, (ast.For, ast.While)):
                continue  # a continue in there belongs to the nested loop
            if isinstance(c, (ast.FunctionDef, ast.Lambda, ast.ClassDef)):
                continue
            if isinstance(c, ast.Continue):
                out.append(c)
            walk(c, depth + 1)

    if isinstance(stmt, ast.Continue):
        out.append(stmt)
    elif not isinstance(stmt, (ast.For, ast.While)):
        walk(stmt, 0)
    return out


def scan(tree):
    held, found = [], []
    for loop in [n for n in ast.walk(tree) if isinstance(n, ast.For)]:
        body = loop.body
        targets = {y.id for y in ast.walk(loop.target) if isinstance(y, ast.Name)}
        for k, st in enumerate(body):
            if not (isinstance(st, ast.AugAssign) and isinstance(st.op, (ast.Add, ast.Sub)) and isinstance(st.target, ast.Name)):
                continue
            v = st.target.id
            # the advance is the size of the item of this pass (pos += len(item)): a counter of stored items (n += 1) may
            # legitimately stand still on a skipped pass
            derived = set(targets)
            for other in body:
                if isinstance(other, ast.Assign) and len(other.targets) == 1 and isinstance(other.targets[0], ast.Name) and any(isinstance(y, ast.Name) and y.id in derived for y in ast.walk(other.value)):
                    derived.add(other.targets[0].id)
            if not any(isinstance(y, ast.Name) and y.id in derived for y in ast.walk(st.value)):
                continue
            # used as (part of) a subscript in the same body, outside the advance itself
            used = False
            for other in body:
                if other is st:
                    continue
                for x in ast.walk(other):
                    if isinstance(x, ast.Subscript) and any(isinstance(y, ast.Name) and y.id == v for y in ast.walk(x.slice)):
                        used = True
            if not used:
                continue
            # a loop variable of the loop itself is not a running offset
            if isinstance(loop, ast.For) and any(isinstance(y, ast.Name) and y.id == v for y in ast.walk(loop.target)):
                continue
            early = [c for prev in body[:k] for c in _own_continues(prev, loop)]
            if early:
                found.append((loop, st, v, early[0]))
            else:
                held.append((loop, st, v))
    return held, found


_CONTROL = '''
def bad(groups, f, out, cutoff):
    pos = 0
    for g in groups:
        if g[-1] <= cutoff:
            continue
        out[pos : pos + len(g)] = f(g)
        pos += len(g)
def good(groups, f, out, cutoff):
    pos = 0
    for g in groups:
        if g[-1] > cutoff:
            out[pos : pos + len(g)] = f(g)
        pos += len(g)
def good2(groups, f, out):
    pos = 0
    for g in groups:
        for x in g:
            if x < 0:
                continue
        out[pos : pos + len(g)] = f(g)
        pos += len(g)
'''


def run(rep: core.Report, rid: str, scope: list[str], floor: int = 0):
    rep.rule(rid, "a running offset (a name advanced by 'op=' at the top level of a loop body and used in a subscript there) is advanced on every pass: no continue of that loop occurs before the advance, otherwise everything stored after a skipped item lands too low by its size", floor)
    t = ast.parse(_CONTROL)
    for n in ast.walk(t):
        for ch in ast.iter_child_nodes(n):
            ch._parent = n
    h, f = scan(t)
    if sorted(core.qualname_of(x[0]) for x in f) != ["bad"] or sorted(core.qualname_of(x[0]) for x in h) != ["good", "good2"]:
        raise AnalysisError(f"{rid}: the rule no longer classifies its own examples")
    for rel in scope:
        tree = core.parse(rel)
        held, found = scan(tree)
        for loop, st, v in held:
            rep.instance(rid, rel, core.qualname_of(loop), f"running offset '{v}': {core.norm(core.src(st), 40)}", True, "", line=st.lineno, nontrivial=False)
        for loop, st, v, cont in found:
            rep.instance(rid, rel, core.qualname_of(loop), f"running offset '{v}': {core.norm(core.src(st), 40)}", False,
                         f"the loop at line {loop.lineno} places its results at the running offset '{v}', but the 'continue' at line {cont.lineno} ends a pass before '{core.norm(core.src(st), 40)}': after a skipped item every later result is stored too low by the size of the skipped one (other bands' values under the wrong index, the last rows left at their initial value)", line=cont.lineno)
