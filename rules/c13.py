"""C13 — compiled kernels: ABI agreement, OpenMP data sharing, serial == OpenMP build,
bounded writes, cross-language constants, sibling kernels (DESIGN §3 C13)."""

from __future__ import annotations

import ast
import re

import sympy as sp

from engine import cast, cidx, core, symalg, xabi
from engine.core import AnalysisError

ALL_C = cast.C_FILES + [cast.GLUE]

# index maps whose values are distinct for distinct arguments (established by the
# Python layer; printed in the evidence as assumptions, one reason each)
ASSUME_INJECTIVE = {
    "fc_index_map": "dynmat_to_fc._c_inverse_transformation passes p2s_map (compact) or arange(n_satom) (full): distinct rows of fc",
}


def analyzer():
    tus = [cast.load(f) for f in ALL_C]
    return cidx.Analyzer(tus), tus


def run(rep: core.Report):
    an, tus = analyzer()
    _r13b(rep, an, tus)
    _r13c(rep, tus)
    _r13e(rep)
    _r13f(rep, tus)
    tolerance_degree(rep, "R13f.tol")
    _r13g(rep)
    _r13h(rep)
    from rules import c13_abi, c13_bounds, c13_stride, shared_zeroinit

    shared_zeroinit.run(rep, "R13i", [r for r in core.python_files("phonopy") if "phonoc." in core.read(r) or "harmonic/" in r or "structure/" in r], 8)

    c13_abi.run(rep, an, tus)
    c13_bounds.run(rep, an, tus)
    c13_stride.run(rep, an, tus)



# ---------------------------------------------------------------------------
# R13b OpenMP data sharing
# ---------------------------------------------------------------------------


def regions(an, tus):
    out = []
    for tu in tus:
        prag = {p["line"]: p for p in cast.omp_pragmas(tu.text)}
        for name, fn in tu.functions.items():
            if not any(x.get("kind", "").startswith("OMP") for x in cast.walk(fn)):
                continue
            summ = an.summary(name)
            for sym, directive in summ.parallel.items():
                dl = tu.line(directive)
                p = prag.get(dl)
                if p is None:
                    raise AnalysisError(f"{tu.rel}:{dl}: OpenMP directive without a recognisable pragma line")
                out.append((tu, name, summ, sym, directive, p))
    return out


def _r13b(rep, an, tus):
    rep.rule("R13b", "OpenMP data sharing: every scalar/local array written in a parallel region is private (or the loop variable, or declared inside); every write to shared memory has a subscript that is injective in the parallel loop variable (mixed-radix / div-mod / row-block forms); no unreduced shared accumulation", 30)
    regs = regions(an, tus)
    if len(regs) < 11:
        raise AnalysisError(f"R13b: only {len(regs)} OpenMP parallel regions found, 11 confirmed by reading")
    rep.extra["openmp_regions"] = []
    for tu, fname, summ, psym, directive, prag in regs:
        pvar = psym.name.split("@")[0]
        clauses = prag["clauses"]
        private = set(clauses.get("private", [])) | set(clauses.get("firstprivate", [])) | set(clauses.get("lastprivate", [])) | {pvar}
        reductions = set()
        for r in clauses.get("reduction", []):
            reductions.add(r.split(":")[-1].strip())
        known = {"private", "firstprivate", "lastprivate", "reduction", "if", "schedule", "num_threads", "shared", "default", "collapse"}
        for c in clauses:
            if c not in known:
                raise AnalysisError(f"{tu.rel}:{prag['line']}: OpenMP clause '{c}' is not modelled")
        if "collapse" in clauses:
            raise AnalysisError(f"{tu.rel}:{prag['line']}: collapse() is not modelled")
        region_id = f"{fname}:parallel for over {pvar}"
        rep.extra["openmp_regions"].append({"file": tu.rel, "function": fname, "loop": pvar, "private": sorted(private), "pragma": prag["raw"]})
        rep.instance("R13b", tu.rel, fname, f"{region_id}: directive is 'parallel for'", prag["directive"] == "parallel for", f"unexpected directive '{prag['directive']}'", line=prag["line"])
        # (a) scalars written inside the region
        seen = set()
        for nm, line, stack in summ.scalar_write_ctx:
            if psym not in stack or nm in seen:
                continue
            seen.add(nm)
            if nm == pvar:
                continue
            declared_inside = psym in summ.decl_stack.get(nm, ())
            ok = nm in private or nm in reductions or declared_inside
            rep.instance("R13b", tu.rel, fname, f"{region_id}: scalar '{nm}' written in region is private", ok,
                         f"'{nm}' is assigned inside the parallel region but is shared (not in private(...), not the loop variable, not declared inside): data race between threads", line=line)
        # (b) array writes
        by_base: dict[str, list] = {}
        for w in summ.writes:
            if psym in w.loops:
                by_base.setdefault(w.base, []).append(w)
        for base, ws in by_base.items():
            kind = ws[0].base_kind
            declared_inside = psym in summ.decl_stack.get(base, ())
            if kind == "local_array" or (kind == "local_ptr" and base in private):
                ok = base in private or declared_inside
                rep.instance("R13b", tu.rel, fname, f"{region_id}: local array '{base}' written in region is private", ok,
                             f"local array '{base}' is written by every thread (directly or as an out-parameter of {sorted({w.via[0] for w in ws if w.via})}) but is not in private(...)", line=ws[0].line)
                continue
            # shared memory: injectivity in the parallel variable
            forms = {}
            for w in ws:
                forms.setdefault(str(w.index), w)
            p_coeffs = set()
            all_ok = True
            why = ""
            single_form_family = _same_modulo_constant([w.index for w in forms.values()])
            for w in forms.values():
                ok, info, pc, top = _injective(w, psym)
                if not ok:
                    all_ok, why = False, f"write {base}[{core.norm(str(w.index), 120)}] (via {'/'.join(w.via) or 'direct'}): {info}"
                    break
                p_coeffs.add(pc)
                if not top and not single_form_family:
                    all_ok, why = False, f"several write forms on '{base}' and the parallel variable is not the most significant digit in {core.norm(str(w.index), 100)}"
                    break
            if all_ok and len(p_coeffs) > 1:
                all_ok, why = False, f"write forms on '{base}' use different strides for the parallel variable: {sorted(map(str, p_coeffs))}"
            rep.instance("R13b", tu.rel, fname, f"{region_id}: writes to shared '{base}' are disjoint across iterations ({len(forms)} index forms)", all_ok,
                         f"cannot show that two iterations never write the same element: {why}", line=ws[0].line,
                         sample={"region": region_id, "base": base, "index_forms": [core.norm(str(k), 140) for k in list(forms)[:3]]})
        # (c) if-clause regions only: nothing more; (d) unknown pointer escapes inside region
        for u in summ.reads_unknown:
            rep.unknown(u)


def _same_modulo_constant(exprs) -> bool:
    base = None
    for e in exprs:
        c = sp.expand(e)
        const = c.as_coeff_Add()[0] if c.is_Add else (c if c.is_Number else 0)
        r = sp.expand(c - const)
        if base is None:
            base = r
        elif r != base:
            return False
    return True


def _injective(w: cidx.Write, psym):
    """Returns (ok, info, coefficient structure of the parallel digits, p-digits-are-top)."""
    expr = sp.expand(w.index)
    if not expr.has(psym):
        return False, "the subscript does not depend on the parallel loop variable: all threads write the same elements", None, False
    bounds = {}
    for v, (lo, hi) in w.vars.items():
        bounds[v] = (lo, hi)
    # loads of injective maps whose argument depends only on the parallel variable
    for f in list(expr.atoms(sp.Function)):
        nm = type(f).__name__
        if nm.startswith("load:"):
            mp = nm[5:]
            if mp in ASSUME_INJECTIVE and f.free_symbols and f.free_symbols <= ({psym} | {s for s in f.free_symbols if s not in w.vars}):
                if f.has(psym):
                    d = sp.Symbol(f"inj<{mp}>", integer=True, nonnegative=True)
                    expr = expr.subs(f, d)
                    bounds[d] = (0, None)
                    pd_extra = d
    r = cidx.split_divmod(expr, bounds)
    if r is None:
        return False, "a loop variable occurs with two different divisors, or both bare and under div/mod", None, False
    expr2, nb, groups = r
    bounds.update(nb)
    pdigits = list(groups.get(psym, [])) or ([psym] if expr2.has(psym) else [])
    pdigits += [d for d in bounds if d.name.startswith("inj<")]
    if expr2.atoms(sp.floor) or expr2.atoms(sp.Mod):
        return False, f"unresolved floor/mod in {expr2}", None, False
    if any(type(f).__name__.startswith(("load:", "call:")) for f in expr2.atoms(sp.Function)):
        return False, f"subscript depends on a value loaded from memory ({[str(f) for f in expr2.atoms(sp.Function)][:2]}) that is not in the injective-map assumption table", None, False
    digit_bounds = {d: (b[0], b[1]) for d, b in bounds.items() if expr2.has(d)}
    ok, info = cidx.mixed_radix(expr2, digit_bounds)
    if not ok:
        return False, info, None, False
    order = info
    names = [str(d) for d in pdigits if expr2.has(d)]
    top = all(o in names for o in order[: len(names)]) if names else False
    P = sp.Poly(expr2, *[d for d in digit_bounds]) if digit_bounds else None
    pc = tuple(sorted(str(P.coeff_monomial(d)) for d in pdigits if expr2.has(d))) if P is not None else ()
    return True, order, pc, top


# ---------------------------------------------------------------------------
# R13c serial build == OpenMP build
# ---------------------------------------------------------------------------


def _r13c(rep, tus):
    rep.rule("R13c", "every '#ifdef _OPENMP' block holds only pragmas / omp.h / the two capability functions, and each 'if (use_openmp) {parallel} else {serial}' twin calls the same callee with arguments equal after (ij / N, ij % N) -> (i, j), or -- in any other spelling -- with the same enumerated index tuples for small extents", 15)
    n_blocks = 0
    for tu in tus:
        for b in cast.pp_blocks(core.read(tu.rel)):
            if b["cond"] != "_OPENMP":
                continue
            n_blocks += 1
            lines = [l.strip() for _, l in b["then"] if l.strip()]
            els = [l.strip() for _, l in b["else"] if l.strip()]
            ok = all(re.match(r"#\s*pragma\s+omp\b|#\s*include\s*<omp\.h>", l) for l in lines) and not els
            cap = False
            if not ok:
                # capability functions: return 1 / return 0 ; return omp_get_max_threads() / return 1
                cap = (lines in (["return 1;"], ["return omp_get_max_threads();"])) and els in (["return 0;"], ["return 1;"])
            rep.instance("R13c", tu.rel, f"#ifdef _OPENMP @{_enclosing_fn(tu, b['start'])}", core.norm(" | ".join(lines + (["#else"] + els if els else [])), 120), ok or cap,
                         "code other than an OpenMP pragma is compiled only when _OPENMP is defined: the serial build executes a different statement list", line=b["start"])
    if n_blocks < 14:
        raise AnalysisError(f"R13c: {n_blocks} '#ifdef _OPENMP' blocks found, 14 confirmed by reading")
    # twins
    n_twins = 0
    for tu in tus:
        for name, fn in tu.functions.items():
            for x in cast.walk(fn):
                if x.get("kind") != "IfStmt":
                    continue
                ks = cast.kids(x)
                if cast.text(ks[0]) != "use_openmp" or len(ks) < 3:
                    continue
                n_twins += 1
                par_calls = [c for c in cast.walk(ks[1]) if c.get("kind") == "CallExpr"]
                ser_calls = [c for c in cast.walk(ks[2]) if c.get("kind") == "CallExpr"]
                par_calls = [c for c in par_calls if cast.callee_name(c) in tu.functions or cast.callee_name(c)]
                ok = len(par_calls) == 1 and len(ser_calls) == 1 and cast.callee_name(par_calls[0]) == cast.callee_name(ser_calls[0])
                why = "the two arms do not each consist of one call to the same callee"
                if ok:
                    pa = [cast.text(a) for a in cast.call_args(par_calls[0])]
                    sa = [cast.text(a) for a in cast.call_args(ser_calls[0])]
                    # local definitions in the parallel arm (i = ij / N; j = ij % N)
                    defs = {}
                    for a in cast.walk(ks[1]):
                        if a.get("kind") == "BinaryOperator" and a.get("opcode") == "=":
                            nm = cast.ref_name(cast.kids(a)[0])
                            if nm:
                                defs[nm] = cast.text(cast.kids(a)[1])
                    pa = [defs.get(t, t) for t in pa]
                    ser_loops = [f for f in cast.walk(ks[2]) if f.get("kind") == "ForStmt"]
                    par_loops = [f for f in cast.walk(ks[1]) if f.get("kind") == "ForStmt"]
                    ok, why = _twin_args(pa, sa, par_loops, ser_loops)
                    if not ok:
                        # the arms may still visit the same index tuples in another spelling (a continue under j < i
                        # against a triangular bound, exchanged roles of / and %): compare the enumerated calls
                        sem = _twin_enum(fn, ks[1], ks[2])
                        if sem is True:
                            ok, why = True, ""
                        elif isinstance(sem, str):
                            why = sem
                rep.instance("R13c", tu.rel, name, f"if (use_openmp) twin calling {cast.callee_name(par_calls[0]) if par_calls else '?'}", ok,
                             f"parallel and serial arms differ: {why}", line=tu.line(x))
    if n_twins < 4:
        raise AnalysisError(f"R13c: {n_twins} use_openmp twins found, 4 confirmed by reading")


def _enclosing_fn(tu, line):
    best = "<file scope>"
    for n, f in tu.functions.items():
        l0 = tu.line(f)
        off = cast.end_offset(f)
        l1 = tu.line_of_offset(off) if off is not None else l0
        if l0 and l0 <= line <= l1:
            best = n
    return best


def _loop_hdr(f):
    ks = f.get("inner", [])
    init, cond = ks[0], ks[2]
    var = cast.ref_name(cast.kids(init)[0]) if isinstance(init, dict) and init.get("kind") == "BinaryOperator" else None
    hi = cast.text(cast.kids(cond)[1]) if isinstance(cond, dict) and cond.get("kind") == "BinaryOperator" else None
    lo = cast.text(cast.kids(init)[1]) if var else None
    return var, lo, hi, cond.get("opcode") if isinstance(cond, dict) else None


def _twin_enum(fn, par, ser):
    """True when both arms call the same callee with the same multiset of integer arguments (and textually equal other
    arguments) for every small extent; a message when they provably differ; None when the arms cannot be enumerated"""
    from engine import cenum

    ints = [p_.get("name") for p_ in cast.params(fn) if "*" not in cast.qtype(p_) and "[" not in cast.qtype(p_) and cast.is_int_type(cast.qtype(p_))]
    try:
        for base in (1, 2, 3):
            env = {nm: base + (k_ % 2) for k_, nm in enumerate(ints)}
            a = cenum.enumerate_stmt(par, env, where="parallel arm")
            b = cenum.enumerate_stmt(ser, env, where="serial arm")
            ca = sorted((c_, tuple(-1 if v is None else v for v in args)) for c_, args in a.calls)
            cb = sorted((c_, tuple(-1 if v is None else v for v in args)) for c_, args in b.calls)
            if ca != cb:
                only_a = [x for x in ca if x not in cb][:2]
                only_b = [x for x in cb if x not in ca][:2]
                return f"with integer parameters {env} the parallel arm makes {len(ca)} calls and the serial arm {len(cb)}; only parallel: {only_a}; only serial: {only_b}"
    except AnalysisError:
        return None
    # the arguments that are not integers must be the same expressions
    pc = [c for c in cast.walk(par) if c.get("kind") == "CallExpr"]
    sc = [c for c in cast.walk(ser) if c.get("kind") == "CallExpr"]
    if len(pc) != 1 or len(sc) != 1:
        return None
    for x, y in zip(cast.call_args(pc[0]), cast.call_args(sc[0])):
        if cast.is_int_type(cast.qtype(cast.strip(x))) and cast.is_int_type(cast.qtype(cast.strip(y))):
            continue
        if re.sub(r"\s+", "", cast.text(x)) != re.sub(r"\s+", "", cast.text(y)):
            return f"argument '{cast.text(x)}' vs '{cast.text(y)}'"
    return True


def _twin_args(pa, sa, par_loops, ser_loops):
    if len(par_loops) != 1 or len(ser_loops) != 2:
        return False, f"expected one parallel loop and a two-level serial nest, found {len(par_loops)} and {len(ser_loops)}"
    pv, plo, phi, pop = _loop_hdr(par_loops[0])
    (iv, ilo, ihi, iop), (jv, jlo, jhi, jop) = _loop_hdr(ser_loops[0]), _loop_hdr(ser_loops[1])
    if (plo, ilo, jlo) != ("0", "0", "0") or {pop, iop, jop} != {"<"}:
        return False, "loops do not start at 0 with '<' bounds"
    norm = lambda t: re.sub(r"\s+", "", t)
    if norm(phi) not in (norm(f"{ihi}*{jhi}"), norm(f"{jhi}*{ihi}")):
        return False, f"parallel trip count {phi} is not {ihi} * {jhi}"
    if len(pa) != len(sa):
        return False, "different argument counts"
    for k, (p, s) in enumerate(zip(pa, sa)):
        if s == iv:
            if norm(p) != norm(f"{pv}/{jhi}"):
                return False, f"argument {k}: serial passes '{iv}', parallel passes '{p}' instead of '{pv} / {jhi}'"
        elif s == jv:
            if norm(p) != norm(f"{pv}%{jhi}"):
                return False, f"argument {k}: serial passes '{jv}', parallel passes '{p}' instead of '{pv} % {jhi}'"
        elif norm(p) != norm(s):
            return False, f"argument {k}: '{p}' vs '{s}'"
    return True, ""


# ---------------------------------------------------------------------------
# R13e cross-language constants
# ---------------------------------------------------------------------------


def _define(rel, name):
    m = re.search(r"^[ \t]*#define[ \t]+" + name + r"[ \t]+([^\s/]+)", core.read(rel), re.M)
    if not m:
        raise AnalysisError(f"anchor vanished: #define {name} in {rel}")
    return m.group(1)


def _r13e(rep):
    rep.rule("R13e", "constants shared between C and Python agree (KB, PI, q-zero tolerance, sparse-layout 27)", 6)
    import math

    u = symalg.fold_constants("phonopy/units.py")
    kb = float(_define("c/phonopy.c", "KB"))
    rep.instance("R13e", "c/phonopy.c", "KB", f"#define KB {kb!r} == units.Kb {u['Kb']!r}", abs(kb - u["Kb"]) <= 1e-12 * u["Kb"], "C Boltzmann constant differs from phonopy.units.Kb beyond 1e-12 relative")
    for rel in ("c/dynmat.c", "c/derivative_dynmat.c"):
        pi = float(_define(rel, "PI"))
        rep.instance("R13e", rel, "PI", f"#define PI {pi!r}", abs(pi - math.pi) <= 1e-15, "C value of pi is not pi to double precision")
    # q_zero_tolerance in dynmat.c vs DynamicalMatrixNAC.Q_DIRECTION_TOLERANCE
    tu = cast.load("c/dynmat.c")
    fn = tu.functions.get("dym_dynamical_matrices_with_dd_openmp_over_qpoints")
    if fn is None:
        raise AnalysisError("anchor vanished: dym_dynamical_matrices_with_dd_openmp_over_qpoints")
    tol = None
    for x in cast.walk(fn):
        if x.get("kind") == "BinaryOperator" and x.get("opcode") == "=" and cast.ref_name(cast.kids(x)[0]) == "q_zero_tolerance":
            lit = [y for y in cast.walk(cast.kids(x)[1]) if y.get("kind") == "FloatingLiteral"]
            tol = float(lit[0]["value"]) if lit else None
    if tol is None:
        raise AnalysisError("R13e: no literal is assigned to q_zero_tolerance in dym_dynamical_matrices_with_dd_openmp_over_qpoints any more")
    cls = core.find_def("phonopy/harmonic/dynamical_matrix.py", "DynamicalMatrixNAC")
    pytol = None
    for s in cls.body:
        if isinstance(s, ast.Assign) and core.src(s.targets[0]) == "Q_DIRECTION_TOLERANCE" and isinstance(s.value, ast.Constant):
            pytol = float(s.value.value)
    rep.instance("R13e", "c/dynmat.c", "dym_dynamical_matrices_with_dd_openmp_over_qpoints", f"q_zero_tolerance = {tol} == DynamicalMatrixNAC.Q_DIRECTION_TOLERANCE = {pytol}", tol is not None and tol == pytol,
                 "the compiled all-q-points path and the Python per-q path switch to the zone-centre treatment at different |q|")
    # 27: sparse svecs layout
    g = xabi.glue_table()[0]["py_gsv_set_smallest_vectors_sparse"]
    gl = [p for p in g.params if p.name == "py_smallest_vectors"][0]
    glue27 = "[27][3]" in (gl.casts[0][1] or "")
    proto = dict(xabi.header_prototypes()["phpy_set_smallest_vectors_sparse"])
    c27 = "[27][3]" in proto.get("smallest_vectors", "")
    cells = core.find_def("phonopy/structure/cells.py", "ShortestPairs._run_sparse")
    py27 = any(isinstance(n, ast.Call) and core.src(n.func) == "np.zeros" and n.args and "27, 3" in core.src(n.args[0]) for n in ast.walk(cells))
    rep.instance("R13e", "phonopy/structure/cells.py", "ShortestPairs._run_sparse", "sparse shortest-vector slots: Python (…, 27, 3) / glue double(*)[27][3] / phonopy.h [27][3]", glue27 and c27 and py27,
                 f"the 27-slot layout disagrees (python={py27}, glue={glue27}, header={c27}): rows would be strided differently on the two sides")
    tuc = cast.load("c/phonopy.c")
    fn = tuc.functions["phpy_set_smallest_vectors_sparse"]
    lits = [cast.text(x) for x in cast.walk(fn) if x.get("kind") == "BinaryOperator" and x.get("opcode") in (">", ">=") and "count" in cast.text(x)]
    rep.instance("R13e", "c/phonopy.c", "phpy_set_smallest_vectors_sparse", f"overflow guard {lits}", lits == ["count > 27"], "the multiplicity overflow guard does not match the 27-slot layout")


# ---------------------------------------------------------------------------
# R13f sibling kernels
# ---------------------------------------------------------------------------


def _norm_tree(e, ren):
    k = e.get("kind")
    ks = cast.kids(e)
    if k in ("ImplicitCastExpr", "ParenExpr", "CStyleCastExpr"):
        return _norm_tree(ks[0], ren)
    if k == "DeclRefExpr":
        nm = e["referencedDecl"]["name"]
        return ren.setdefault(nm, f"v{len(ren)}") if e["referencedDecl"].get("kind") != "FunctionDecl" else nm
    if k in ("IntegerLiteral", "FloatingLiteral"):
        return str(e.get("value"))
    return (k, e.get("opcode"), tuple(_norm_tree(c, ren) for c in ks))


def _r13f(rep, tus):
    rep.rule("R13f", "phpy_set_smallest_vectors_sparse and _dense are the same algorithm: equal normalised statement trees for the distance computation and the selection predicate (names alpha-renamed, integer widths erased)", 3)
    tu = [t for t in tus if t.rel == "c/phonopy.c"][0]
    a, b = tu.functions.get("phpy_set_smallest_vectors_sparse"), tu.functions.get("phpy_set_smallest_vectors_dense")
    if a is None or b is None:
        raise AnalysisError("anchor vanished: phpy_set_smallest_vectors_sparse/_dense")

    def parts(fn):
        preds, dist, norms = [], [], []
        for x in cast.walk(fn):
            if x.get("kind") == "IfStmt":
                c = cast.kids(x)[0]
                t = cast.text(c)
                if "symprec" in t:
                    preds.append(_norm_tree(c, {}))
            if x.get("kind") == "BinaryOperator" and x.get("opcode") == "=":
                lhs = cast.text(cast.kids(x)[0])
                if lhs.startswith("length["):
                    norms.append(_norm_tree(cast.kids(x)[1], {}))
                if lhs.startswith("vec[") or lhs.startswith("vec_xyz["):
                    dist.append((re.sub(r"\[.*", "", lhs), _norm_tree(cast.kids(x)[1], {})))
        return preds, dist, norms

    pa, da, na = parts(a)
    pb, db, nb_ = parts(b)
    rep.instance("R13f", "c/phonopy.c", "phpy_set_smallest_vectors_*", f"selection predicate(s): {len(pa)} sparse / {len(pb)} dense", bool(pa) and set(pa) == set(pb),
                 "the tie-selection predicate (length - minimum < symprec) differs between the sparse and dense variants", line=tu.line(a))
    rep.instance("R13f", "c/phonopy.c", "phpy_set_smallest_vectors_*", f"image vector computation: {len(da)} / {len(db)} assignments", bool(da) and da == db,
                 "the periodic-image / Cartesian conversion differs between the sparse and dense variants", line=tu.line(a))
    rep.instance("R13f", "c/phonopy.c", "phpy_set_smallest_vectors_*", f"length computation: {len(na)} / {len(nb_)}", bool(na) and na == nb_,
                 "the length computation differs between the sparse and dense variants", line=tu.line(a))


# ---------------------------------------------------------------------------
# checker self-test catalogue (thorough tier)
# ---------------------------------------------------------------------------



# which optional pointer the kernel behind a glue function needs under which flags: confirmed by reading the kernels
# (dym_dynamical_matrices_with_dd_openmp_over_qpoints: get_dynmat_want and add_dynmat_dd_at_q both test q_direction;
# dd_q0 != NULL selects the Gonze-Lee term; dym_get_recip_dipole_dipole takes the direction at G + q = 0) and the
# Python call sites (is_nac_q_zero = "no direction given")
_NULLABLE = {
    "py_get_dynamical_matrices_with_dd_openmp_over_qpoints": {
        "py_q_direction": ("is_nac and not is_nac_q_zero", lambda f: f["is_nac"] and not f["is_nac_q_zero"]),
        "py_dd_q0": ("is_nac and not use_Wang_NAC", lambda f: f["is_nac"] and not f["use_Wang_NAC"]),
        "py_positions": ("is_nac and not use_Wang_NAC", lambda f: f["is_nac"] and not f["use_Wang_NAC"]),
        "py_G_list": ("is_nac and not use_Wang_NAC", lambda f: f["is_nac"] and not f["use_Wang_NAC"]),
    },
    "py_get_recip_dipole_dipole": {
        "py_q_direction": ("not is_nac_q_zero", lambda f: not f["is_nac_q_zero"]),
    },
}


def _r13h(rep):
    """Optional arrays in the glue: NULL or the caller's data, per combination of the flags (all paths)."""
    import itertools

    from engine import cpaths

    rep.rule("R13h", "optional arrays of the glue functions: over all paths of the function (conditions split into atoms), the pointer handed to the kernel is the caller's array exactly under the flag combinations in which the kernel reads it, and NULL otherwise (a direction given from Python reaches both NAC kernels; the Gonze-Lee arrays only that method)", 5)
    rel = "c/_phonopy.cpp"
    tu = cast.load(rel)
    for fname, table in _NULLABLE.items():
        fn = tu.functions.get(fname)
        if fn is None:
            raise AnalysisError(f"anchor vanished: {fname} in {rel}")
        flags = sorted({w for text, _ in table.values() for w in text.replace("(", " ").replace(")", " ").split() if w not in ("and", "or", "not")})
        pnames = {p_.get("name") for p_ in cast.params(fn)}
        if not set(flags) <= pnames:
            raise AnalysisError(f"R13h: {fname} lost flag parameter(s) {sorted(set(flags) - pnames)}")
        allp = cpaths.paths(fn)
        outcome = {}  # (py array, flag values) -> set of 'data' | 'NULL'
        for pth in allp:
            facts, vals = {}, {}
            for ev in pth:
                if ev[0] == "cond":
                    nm = cast.ref_name(ev[1])
                    if nm in flags:
                        facts[nm] = ev[2]
                    elif any(x.get("referencedDecl", {}).get("name") in flags for x in cast.walk(ev[1])):
                        raise AnalysisError(f"R13h: {fname}: condition '{cast.text(ev[1])}' on a flag is not a plain truth test")
                elif ev[0] == "stmt":
                    a = cpaths.assignment(ev)
                    if a:
                        src_ = [x.get("referencedDecl", {}).get("name") for x in cast.walk(a[1]) if x.get("kind") == "DeclRefExpr"]
                        if src_ and "data" not in cast.text(a[1]):
                            continue  # an extent (py_x.shape(0)) or another scalar, not the pointer
                        vals[a[0]] = next((x for x in src_ if x in table), None) if src_ else "NULL"
            # which local carries which py array: from the paths on which it is data
            for combo in itertools.product((True, False), repeat=len(flags)):
                f_ = dict(zip(flags, combo))
                if any(facts.get(k, v) != v for k, v in f_.items()):
                    continue
                for loc, v in vals.items():
                    outcome.setdefault((loc, combo), set()).add(v)
        carriers = {}
        for (loc, combo), vs in outcome.items():
            for v in vs:
                if v in table:
                    carriers.setdefault(v, set()).add(loc)
        for arr, (text, want) in table.items():
            locs = carriers.get(arr, set())
            if len(locs) != 1:
                rep.instance("R13h", rel, fname, f"{arr}: handed over when {text}", False, f"the caller's array {arr} is never handed to the kernel (on no path of the function): the kernel always receives NULL and the term that needs it is silently dropped", line=tu.line(fn))
                continue
            loc = next(iter(locs))
            wrong = []
            for combo in itertools.product((True, False), repeat=len(flags)):
                f_ = dict(zip(flags, combo))
                got = outcome.get((loc, combo), set())
                exp = {arr} if want(f_) else {"NULL"}
                if got != exp:
                    wrong.append((f_, sorted(map(str, got))))
            rep.instance("R13h", rel, fname, f"{loc} = {arr}.data() exactly when {text}, NULL otherwise ({len(allp)} paths, {2 ** len(flags)} flag combinations)", not wrong,
                         f"for {', '.join(f'{k}={int(v)}' for k, v in wrong[0][0].items()) if wrong else ''} the kernel receives {wrong[0][1] if wrong else ''} for '{loc}' instead of {'the array ' + arr if wrong and want(wrong[0][0]) else 'NULL'} ({len(wrong)} of {2 ** len(flags)} combinations differ): the kernel tests this pointer to decide whether the direction / the Gonze-Lee term applies, so the term is dropped (or junk is read) without any error", line=tu.line(fn))


def tolerance_degree(rep, rid):
    """The shortest-vector kernels call two images equidistant when their distances differ by less than symprec
    (shared by C13 R13f and C03 R03f)."""
    rep.rule(rid, "equidistance test of the shortest-vector kernels: the quantity compared is a distance (the accumulated squared length goes through sqrt before the search) and the tolerance is symprec to the first power -- |d1 - d2| < symprec as documented, not a test on squared lengths, which is tighter by the factor (d1 + d2) / symprec and drops images whose coordinates agree only to the precision of a structure file", 2)
    tu = cast.load("c/phonopy.c", openmp=False)
    for nm in ("phpy_set_smallest_vectors_sparse", "phpy_set_smallest_vectors_dense"):
        fn = tu.functions.get(nm)
        if fn is None:
            raise AnalysisError(f"anchor vanished: {nm}")
        tol_par = [p_["name"] for p_ in cast.params(fn) if "double" in cast.qtype(p_) and "*" not in cast.qtype(p_) and "[" not in cast.qtype(p_)]
        conds = []
        for x in cast.walk(fn):
            if x.get("kind") == "IfStmt":
                c = cast.strip(cast.kids(x)[0])
                if c.get("kind") == "BinaryOperator" and c.get("opcode") in ("<", "<=") and cast.strip(cast.kids(c)[0]).get("kind") == "BinaryOperator" and cast.strip(cast.kids(c)[0]).get("opcode") == "-" and any(t in cast.text(cast.kids(c)[1]) for t in tol_par):
                    conds.append(c)
        if len(conds) != 1:
            raise AnalysisError(f"{nm}: {len(conds)} tie tests of the form 'a - b < tolerance' found, 1 expected")
        c = conds[0]
        lhs, rhs = cast.kids(c)
        cell = cast.strip(cast.kids(cast.strip(lhs))[0])
        base = cast.text(cell).split("[")[0]
        try:
            deg = sp.Poly(sp.sympify(cast.text(rhs).replace(" ", ""), locals={t: sp.Symbol(t) for t in tol_par}), *[sp.Symbol(t) for t in tol_par]).total_degree()
        except Exception:
            deg = None
        rooted = [x for x in cast.walk(fn) if x.get("kind") == "BinaryOperator" and x.get("opcode") == "=" and cast.text(cast.kids(x)[0]).split("[")[0] == base
                  and cast.strip(cast.kids(x)[1]).get("kind") == "CallExpr" and cast.callee_name(cast.strip(cast.kids(x)[1])) == "sqrt" and cast.text(cast.call_args(cast.strip(cast.kids(x)[1]))[0]).split("[")[0] == base]
        squares = [x for x in cast.walk(fn) if x.get("kind") == "CompoundAssignOperator" and x.get("opcode") == "+=" and cast.text(cast.kids(x)[0]).split("[")[0] == base]
        if not squares:
            raise AnalysisError(f"{nm}: the accumulation of the squared length into '{base}' vanished")
        ok = bool(rooted) and deg == 1
        rep.instance(rid, "c/phonopy.c", nm, f"tie test {cast.text(c)}; sqrt applied to {base}: {bool(rooted)}; degree of the tolerance: {deg}", ok,
                     f"the tie test compares {'squared lengths' if not rooted else 'distances'} with a tolerance of degree {deg} in {tol_par}: two images count as equidistant only when their squared lengths agree to symprec^2, i.e. their distances to about symprec^2 / (2 d) -- images that are equivalent up to the precision of the input coordinates are dropped, the multiplicities become asymmetric and the spectrum loses the point-group invariance", line=tu.line(c))


def _r13g(rep):
    """Closed-form helpers of the derivative kernel: get_dA / get_dC are the q-derivatives of get_A / get_C
    (symbolic differentiation after unrolling the 3-trip loops), and the Python reference helpers contract /
    differentiate along the same tensor axis."""
    import sympy as sp
    from engine import symalg

    rep.rule("R13g", "derivative kernel helpers: get_dA(atom, i, j) == d get_A(atom, i, q)/dq_j and get_dC(.., k, q) == d get_C(q)/dq_k for j, k in 0..2; the Python reference _A/_dA use the same Born-tensor axis", 1)
    DD = "c/derivative_dynmat.c"
    tu = cast.load(DD)
    need = ("get_A", "get_dA", "get_C", "get_dC")
    gone = [n_ for n_ in need if n_ not in tu.functions]
    if gone:
        # the helpers were inlined / reshaped: what they computed is still decided, as part of the whole NAC term,
        # by the closed form of get_derivative_nac (C12 R12g, delegated to C13)
        rep.unknown(f"R13g: helper(s) {gone} of {DD} no longer exist as separate functions; their identities are part of R12g")
        rep.instance("R13g", DD, "get_derivative_nac", "helpers of the NAC derivative folded into get_derivative_nac (decided by its closed form, R12g)", "get_derivative_nac" in tu.functions, "the NAC derivative routine vanished", line=1, nontrivial=False)
        return
    q = [sp.Symbol(f"q{i}") for i in range(3)]
    born, diel = sp.Function("born"), sp.Function("dielectric")

    def sub_hook(t, e, tr, env):
        ks = cast.kids(e)
        base = cast.text(cast.strip(ks[0]))
        idx = sp.expand(tr.expr(ks[1], env))
        if base == "q":
            return q[int(idx)] if idx.is_Integer else None
        if base == "born":
            return born(idx)
        if base == "dielectric":
            return diel(idx)
        return None

    names = {n_: sp.Symbol(n_, integer=True) for n_ in ("atom_i", "cart_i", "cart_j", "cart_k")}
    tr = symalg.CTranslator(names, sub_hook=sub_hook, where=DD)
    A = tr.function(tu.functions["get_A"])
    dA = tr.function(tu.functions["get_dA"])
    if len(A) != 1 or len(dA) != 1:
        raise AnalysisError("R13g: get_A / get_dA are no longer single-path functions")
    for j in range(3):
        want = sp.diff(A[0].expr, q[j])
        got = dA[0].expr.subs(names["cart_j"], j)
        rep.instance("R13g", DD, "get_dA", f"get_dA(atom_i, cart_i, {j}) == d get_A/dq_{j} = {want}", sp.simplify(want - got) == 0,
                     f"get_dA returns {got} where the derivative of get_A with respect to q[{j}] is {want}: for Born tensors that are not symmetric matrices the NAC part of the derivative kernel differs from the Python reference and from the numerical derivative", line=tu.line(tu.functions["get_dA"]))
    C = tr.function(tu.functions["get_C"])
    dC = tr.function(tu.functions["get_dC"])
    for k in range(3):
        want = sp.expand(sp.diff(C[0].expr, q[k]))
        sel = [b for b in dC if all((txt == f"cart_k == {k}") == truth for txt, truth in b.conds if txt.startswith("cart_k =="))]
        sel = [b for b in sel if any(txt == f"cart_k == {k}" and truth for txt, truth in b.conds)]
        ok = len(sel) == 1 and sp.simplify(sp.expand(sel[0].expr) - want) == 0
        rep.instance("R13g", DD, "get_dC", f"get_dC(.., cart_k={k}, q) == d get_C/dq_{k}", ok, f"get_dC for cart_k = {k} returns {sel[0].expr if sel else '<no branch>'}, the derivative of get_C is {want}", line=tu.line(tu.functions["get_dC"]))
    # which Born axis is contracted with q: C (coefficient of the summation index in the flat subscript) and Python (np.dot operand order)
    terms = [t for t in sp.Add.make_args(sp.expand(A[0].expr))]
    axes_c = set()
    for t in terms:
        f = [x for x in t.atoms(sp.Function) if x.func == born]
        qs = [x for x in t.free_symbols if x in q]
        if len(f) == 1 and len(qs) == 1:
            idx = f[0].args[0]
            coeff = sp.expand(idx - idx.subs(names["cart_i"], 0)).coeff(names["cart_i"]) if False else None
            a = q.index(qs[0])
            rest = sp.expand(idx - names["atom_i"] * 9 - names["cart_i"] * idx.coeff(names["cart_i"]))
            if rest == a * 3 and idx.coeff(names["cart_i"]) == 1:
                axes_c.add(1)
            elif rest == a and idx.coeff(names["cart_i"]) == 3:
                axes_c.add(2)
            else:
                axes_c.add("?")
    PYD = "phonopy/harmonic/derivative_dynmat.py"
    fa = core.find_def(PYD, "DerivativeOfDynamicalMatrix._A")
    fd = core.find_def(PYD, "DerivativeOfDynamicalMatrix._dA")
    ra = [r.value for r in ast.walk(fa) if isinstance(r, ast.Return)]
    rd = [r.value for r in ast.walk(fd) if isinstance(r, ast.Return)]
    axis_py = axis_pyd = None
    pair = None
    if ra and isinstance(ra[0], ast.Call) and core.src(ra[0].func) in ("np.dot", "np.matmul") and len(ra[0].args) == 2:
        pair = tuple(ra[0].args)
    elif ra and isinstance(ra[0], ast.BinOp) and isinstance(ra[0].op, ast.MatMult):
        pair = (ra[0].left, ra[0].right)
    if pair:
        a0, a1 = pair
        if core.src(a0) == "q" and isinstance(a1, ast.Subscript) and not isinstance(a1.slice, ast.Tuple):
            axis_py = 1  # q . Z[atom]: first axis of the 3x3 tensor = axis 1 of Z
        elif core.src(a1) == "q" and isinstance(a0, ast.Subscript) and not isinstance(a0.slice, ast.Tuple):
            axis_py = 2
    if rd and isinstance(rd[0], ast.Subscript) and isinstance(rd[0].slice, ast.Tuple) and len(rd[0].slice.elts) == 3:
        for pos, el in enumerate(rd[0].slice.elts):
            if isinstance(el, ast.Name) and el.id == "xyz":
                axis_pyd = pos
    if axis_py is None or axis_pyd is None:
        rep.unknown("R13g: form of the Python reference _A / _dA not recognised")
    else:
        rep.instance("R13g", PYD, "DerivativeOfDynamicalMatrix._dA", f"_A contracts q with axis {axis_py} of Z, _dA places the derivative index on axis {axis_pyd}", axis_py == axis_pyd,
                     "the Python reference differentiates along a different Born-tensor axis than it contracts", line=fd.lineno)
        rep.instance("R13g", DD, "get_A", f"C contracts q with Born axis {sorted(axes_c, key=str)}, Python with axis {axis_py}", axes_c == {axis_py},
                     "the compiled helper and the Python reference contract q with different axes of the Born effective charge tensor", line=tu.line(tu.functions["get_A"]))
    rep.assume("R13g: the dielectric tensor is symmetric (the Python reference _dB uses 2 eps q, the kernel (eps + eps^T) q)")


def selftest():
    V = []
    b = lambda name, file, old, new, rule, expect="", **kw: V.append(dict(name=name, kind="break", file=file, old=old, new=new, rule=rule, expect=expect, **kw))
    n = lambda name, file, old, new, **kw: V.append(dict(name=name, kind="neutral", file=file, old=old, new=new, **kw))
    FC_ = "phonopy/harmonic/force_constants.py"
    b("full fc allocated with np.empty before the distributing kernel adds to it", FC_, "    fc = np.zeros(\n        (compact_fc.shape[1], compact_fc.shape[1], 3, 3), dtype=\"double\", order=\"C\"\n    )\n    fc[primitive.p2s_map] = compact_fc", "    fc = np.empty(\n        (compact_fc.shape[1], compact_fc.shape[1], 3, 3), dtype=\"double\", order=\"C\"\n    )\n    fc[primitive.p2s_map] = compact_fc", "R13i", "compact_fc_to_full_fc")
    n("compact fc allocated with np.empty and assigned as a whole", FC_, "    fc = np.zeros((len(p2s_map), full_fc.shape[1], 3, 3), dtype=\"double\", order=\"C\")\n    fc[:] = full_fc[p2s_map]", "    fc = np.empty((len(p2s_map), full_fc.shape[1], 3, 3), dtype=\"double\", order=\"C\")\n    fc[:] = full_fc[p2s_map]")
    # R13b
    b("glue drops the direction for the Wang kernel", "c/_phonopy.cpp", "    if (is_nac_q_zero || (!is_nac)) {\n        q_direction = NULL;", "    if (is_nac_q_zero || (!is_nac) || use_Wang_NAC) {\n        q_direction = NULL;", "R13h", "q_direction")
    n("glue: direction test with the arms exchanged", "c/_phonopy.cpp", "    if (is_nac_q_zero || (!is_nac)) {\n        q_direction = NULL;\n    } else {\n        q_direction = (double *)py_q_direction.data();\n    }", "    if (is_nac && !is_nac_q_zero) {\n        q_direction = (double *)py_q_direction.data();\n    } else {\n        q_direction = NULL;\n    }")
    b("omp: drop gp from private", "c/phonopy.c", "private(k, g_addr, gp, address_double)", "private(k, g_addr, address_double)", "R13b", "scalar 'gp'")
    b("omp: drop address_double (callee out-param) from private", "c/phonopy.c", "private(k, g_addr, gp, address_double)", "private(k, g_addr, gp)", "R13b", "'address_double'")
    b("omp: drop tetrahedra from private", "c/phonopy.c", "tetrahedra, address_double)", "address_double)", "R13b", "'tetrahedra'")
    b("omp: drop f from thermal private", "c/phonopy.c", "private(j, k, f)", "private(j, k)", "R13b", "scalar 'f'")
    b("omp: drop q_K from get_dd private", "c/dynmat.c", "private(i, j, q_K, norm, \\", "private(i, j, norm, \\", "R13b", "'q_K'")
    b("omp: drop private(i, j) in derivative_dynmat", "c/derivative_dynmat.c", "#pragma omp parallel for private(i, j)", "#pragma omp parallel for", "R13b", "scalar 'i'")
    b("omp: thermal accumulates straight into shared output", "c/phonopy.c", "tp[i * num_temp * 3 + j * 3] +=", "thermal_props[j * 3] +=", "R13b", "thermal_props")
    b("omp: div/mod with different divisors", "c/dynmat.c", "fc, dm, ij / num_satom, ij % num_satom, comm_points", "fc, dm, ij / num_satom, ij % num_patom, comm_points", "R13b", "'fc'")
    b("omp: row block stride too small", "c/dynmat.c", "adrs_shift = num_patom * num_patom * 9;", "adrs_shift = num_patom * num_patom * 3;", "R13b", "dynamical_matrices")
    b("omp: parallelise the racy dd_part accumulation", "c/dynmat.c", "    // OpenMP should not be used here.\n    // Due to race condition in dd_part and bad performance.\n    for (g = 0; g < num_G; g++) {",
      "#ifdef _OPENMP\n#pragma omp parallel for private(i, j)\n#endif\n    for (g = 0; g < num_G; g++) {", "R13b", "dd_part")
    n("omp: reorder private list", "c/phonopy.c", "private(k, g_addr, gp, address_double)", "private(address_double, gp, k, g_addr)")
    n("omp: rename parallel loop variable use (schedule clause)", "c/phonopy.c", "#pragma omp parallel for private(j, k, f)", "#pragma omp parallel for schedule(static) private(j, k, f)")
    # R13c
    n("twin: parallel arm visits the pairs column by column", "c/dynmat.c", "multiply_borns_at_ij(dd, ij / num_patom, ij % num_patom, dd_in,", "multiply_borns_at_ij(dd, ij % num_patom, ij / num_patom, dd_in,")
    b("twin: parallel arm passes the row index twice", "c/dynmat.c", "multiply_borns_at_ij(dd, ij / num_patom, ij % num_patom, dd_in,", "multiply_borns_at_ij(dd, ij / num_patom, ij / num_patom, dd_in,", "R13c", "multiply_borns_at_ij")
    b("serial build compiles different code", "c/phonopy.c", "#ifdef _OPENMP\n#pragma omp parallel for private(j, k, f)\n#endif", "#ifdef _OPENMP\n    num_bands_dummy();\n#pragma omp parallel for private(j, k, f)\n#endif", "R13c", "#ifdef _OPENMP")
    # R13e
    b("KB last digits", "c/phonopy.c", "#define KB 8.6173382568083159E-05", "#define KB 8.6173382568083159E-06", "R13e", "KB")
    b("q zero tolerance differs", "c/dynmat.c", "q_zero_tolerance = 1e-5;", "q_zero_tolerance = 1e-4;", "R13e", "q_zero_tolerance")
    # R13a
    b("abi: int64 -> intc grid_address", "phonopy/phonon/dos.py", 'np.array(grid_address, dtype="int64", order="C")', 'np.array(grid_address, dtype="intc", order="C")', "R13a.dtype", "py_grid_address")
    b("abi: swapped multi/masses at Python call", "phonopy/harmonic/dynmat_to_fc.py", "            self._multi,\n            self._pcell.masses,", "            self._pcell.masses,\n            self._multi,", "R13a.dtype", "py_multi")
    b("abi: p2s_map allocated as intc", "phonopy/harmonic/dynamical_matrix.py", 'return np.arange(len(p2s_map), dtype="int64"), s2pp_map', 'return np.arange(len(p2s_map), dtype="intc"), s2pp_map', "R13a.dtype", "p2s")
    b("abi: argument dropped at Python call", "phonopy/phonon/thermal_properties.py", "            self._cutoff_frequency,\n            self._classical,\n        )", "            self._cutoff_frequency,\n        )", "R13a.arity", "thermal_properties")
    b("abi: glue swaps num_patom/num_satom", "c/_phonopy.cpp", "s2pp_map, fc_index_map, num_patom, num_satom,\n                                use_openmp);", "s2pp_map, fc_index_map, num_satom, num_patom,\n                                use_openmp);", "R13a.roles", "num_satom")
    b("abi: kernel wrapper swaps s2p/p2s", "c/phonopy.c", "s2p_map, p2s_map, nac_factor, born,", "p2s_map, s2p_map, nac_factor, born,", "R13a.roles", "p2s_map")
    b("abi: transposed view handed to kernel", "phonopy/structure/cells.py", '    lattice = np.array(lattice, dtype="double", order="C")\n', "", "R13a.dtype", "lattice")
    b("abi: glue reads other axis", "c/_phonopy.cpp", "n_patom = py_force_constants.shape(0);\n    n_satom = py_force_constants.shape(1);\n\n    phpy_perm_trans", "n_patom = py_force_constants.shape(1);\n    n_satom = py_force_constants.shape(0);\n\n    phpy_perm_trans", "R13a.glue", "same axes")
    n("abi: array built in a helper variable first", "phonopy/phonon/dos.py", '        np.array(grid_address, dtype="int64", order="C"),\n', '        _ga,\n', edits=[
        dict(file="phonopy/phonon/dos.py", old='    phonoc.tetrahedron_method_dos(\n', new='    _ga = np.array(grid_address, dtype="int64", order="C")\n    phonoc.tetrahedron_method_dos(\n'),
        dict(file="phonopy/phonon/dos.py", old='        np.array(grid_address, dtype="int64", order="C"),\n', new='        _ga,\n')])
    # R13d
    b("bounds: q_K[3] filled with i <= 3", "c/dynmat.c", "        for (i = 0; i < 3; i++) {\n            q_K[i] = G_list[g][i] + q_cart[i];", "        for (i = 0; i <= 3; i++) {\n            q_K[i] = G_list[g][i] + q_cart[i];", "R13d.fixed", "q_K")
    b("bounds: malloc of tp too small", "c/phonopy.c", "tp = (double *)malloc(sizeof(double) * num_qpoints * num_temp * 3);", "tp = (double *)malloc(sizeof(double) * num_qpoints * num_temp * 2);", "R13d.malloc", "tp[")
    b("bounds: free(tp) dropped", "c/phonopy.c", "    free(tp);\n    tp = NULL;", "    tp = NULL;", "R13d.malloc", "tp = malloc")
    b("bounds: early return leaks KK", "c/dynmat.c", "    L2 = 4 * lambda * lambda;\n", "    L2 = 4 * lambda * lambda;\n    if (num_G == 0) {\n        return;\n    }\n", "R13d.malloc", "KK = malloc")
    b("bounds: Python allocates props too small", "phonopy/phonon/thermal_properties.py", 'props = np.zeros((len(self._temperatures), 3), dtype="double", order="C")', 'props = np.zeros((len(self._temperatures), 2), dtype="double", order="C")', "R13d.extent", "py_thermal_props")
    b("bounds: kernel sums past the output", "c/phonopy.c", "        for (j = 0; j < num_temp * 3; j++) {\n            thermal_props[j] += tp[i * num_temp * 3 + j];", "        for (j = 0; j < num_temp * 4; j++) {\n            thermal_props[j] += tp[i * num_temp * 3 + j];", "R13d.extent", "py_thermal_props")
    b("bounds: multiplicity allocated without the pair axis", "phonopy/structure/cells.py", "            (len(supercell_fracs), len(primitive_fracs), 2), dtype=\"int64\", order=\"C\"", "            (len(supercell_fracs), len(primitive_fracs)), dtype=\"int64\", order=\"C\"", "R13d.extent", "py_multiplicity")
    n("bounds: hoist subscript into a local", "c/phonopy.c", "                tp[i * num_temp * 3 + j * 3] +=\n", "                tp[i * num_temp * 3 + j * 3 + 0] +=\n")
    # R13f
    b("sparse predicate uses <= ", "c/phonopy.c", "if (length[k] - minimum < symprec) {", "if (length[k] - minimum <= symprec) {", "R13f", "selection predicate", nth=0)
    DDC = "c/derivative_dynmat.c"
    V.append(dict(name="get_dA returns the transposed Born element", kind="break", file=DDC, old="    return born[atom_i * 9 + cart_j * 3 + cart_i];", new="    return born[atom_i * 9 + cart_i * 3 + cart_j];", rule="R13g", expect="get_dA"))
    V.append(dict(name="get_dC loses one off-diagonal term", kind="break", file=DDC, old="                q[1] * (dielectric[1] + dielectric[3]) +\n                q[2] * (dielectric[2] + dielectric[6]));", new="                q[1] * (dielectric[1] + dielectric[3]) +\n                q[2] * (dielectric[2] + dielectric[2]));", rule="R13g", expect="get_dC"))
    V.append(dict(name="get_dA subscript reordered", kind="neutral", file=DDC, old="    return born[atom_i * 9 + cart_j * 3 + cart_i];", new="    return born[cart_i + 3 * cart_j + 9 * atom_i];"))
    V.append(dict(name="thermal kernel row stride 2 instead of 3", kind="break", file="c/phonopy.c", old="            thermal_props[j] += tp[i * num_temp * 3 + j];", new="            thermal_props[j] += tp[i * num_temp * 2 + j];", rule="R13h", expect="tp["))
    V.append(dict(name="frequency subscript with a minus", kind="break", file="c/phonopy.c", old="                f = freqs[i * num_bands + k];", new="                f = freqs[i * num_bands - k];", rule="R13h", expect="freqs["))
    V.append(dict(name="tetrahedron dos coefficient stride", kind="break", file="c/phonopy.c", old="                        iw * coef[i * num_coef * num_band + m * num_band + k];", new="                        iw * coef[i * num_coef * num_band + m * num_coef + k];", rule="R13h", expect="coef["))
    V.append(dict(name="subscript terms reordered", kind="neutral", file="c/phonopy.c", old="                f = freqs[i * num_bands + k];", new="                f = freqs[k + num_bands * i];"))
    return V
