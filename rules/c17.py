"""C17 — calculator interfaces keep the crystal and the physical units (DESIGN §3 C17)."""

from __future__ import annotations

import ast
import glob as _glob17
import os
import math
import re

from engine import core, symalg
from engine.core import AnalysisError

CALC = "phonopy/interface/calculator.py"
IFACE = "phonopy/interface/"

# dispatch functions that must have a branch for every registered calculator; exceptions: one symbol, one reason
DISPATCH = {
    "write_crystal_structure": {},
    "write_supercells_with_displacements": {},
    "read_crystal_structure": {},
    "get_default_cell_filename": {},
    "get_default_supercell_filename": {},
    "get_default_physical_units": {},
    "get_calc_dataset": {"wien2k": "force parsing for wien2k needs the structure and symmetry: get_calc_dataset_wien2k"},
}
ENERGY = {"eV": lambda u: 1.0, "Ry": lambda u: u["Rydberg"], "mRy": lambda u: u["Rydberg"] / 1000, "hartree": lambda u: u["Hartree"]}
LENGTH = {"angstrom": lambda u: 1.0, "au": lambda u: u["Bohr"]}


def registry():
    tree = core.parse(CALC)
    for s in tree.body:
        if isinstance(s, ast.Assign) and core.src(s.targets[0]) == "calculator_info" and isinstance(s.value, ast.Dict):
            return [k.value for k in s.value.keys]
    raise AnalysisError("anchor vanished: calculator_info")


def branches(fn, var="interface_mode"):
    """{calculator or None: If node} from an if/elif chain on var."""
    out = {}
    for n in ast.walk(fn):
        if isinstance(n, ast.If):
            for c in ast.walk(n.test):
                if isinstance(c, ast.Compare) and core.src(c.left) == var:
                    comp = c.comparators[0]
                    if isinstance(c.ops[0], ast.Eq) and isinstance(comp, ast.Constant):
                        out.setdefault(comp.value, n)
                    elif isinstance(c.ops[0], ast.In) and isinstance(comp, (ast.Tuple, ast.List)):
                        for e in comp.elts:
                            if isinstance(e, ast.Constant):
                                out.setdefault(e.value, n)
                    elif isinstance(c.ops[0], ast.Is):
                        out.setdefault(None, n)
    return out


def run(rep: core.Report):
    rep.rule("R17a", "every registered calculator has a branch in every dispatch function, and each branch calls a function that exists in the imported module with a compatible arity", 150)
    rep.rule("R17b", "each calculator's unit set is self-consistent: factor = sqrt(FC unit/AMU)/2pi in THz, nac_factor = e^2/4pi eps0 in FC unit x length^3, distance_to_A, force_to_eVperA and the conversion table agree with the unit strings (constant folding of units.py)", 60)
    rep.rule("R17c", "per-atom sequences paired in a structure writer are in the same atom order (original vs grouped-by-species)", 16)
    rep.rule("R17e", "create_FORCE_SETS compares the displacements found in calculator output with the dataset before forces are paired", 2)
    rep.rule("R17f", "the structure-info tuple a reader returns has the shape every consumer of that calculator unpacks or indexes", 20)
    rep.rule("R17g", "output rows keyed by an explicit atom id are stored at the row of that id (scatter out[id-1] = row, or gather through argsort), never gathered through the ids themselves, and an incomplete set of ids is refused", 3)
    reg = registry()
    if len(reg) < 16:
        raise AnalysisError(f"calculator registry has {len(reg)} entries, 16 confirmed by reading")
    _r17a(rep, reg)
    _r17b(rep, reg)
    _r17c(rep)
    _r17e(rep)
    _r17f(rep, reg)
    _r17g(rep)
    _r17h(rep)
    _r17i(rep)
    _r17k(rep)
    _r17l(rep)
    _r17m(rep)
    _r17n(rep)
    _r17p(rep)
    _r17r(rep)
    _r17t(rep)
    from rules import shared_sibperm

    shared_sibperm.run_rescale(rep, "R17s", [CALC], 1)
    from rules import shared_trunc

    shared_trunc.run_int_calls(rep, "R17q", sorted(os.path.relpath(f_, core.REPO) for f_ in _glob17.glob(str(core.REPO / "phonopy/interface/*.py"))))
    import glob as _glob
    from rules import c16 as _c16

    _c16._r16j(rep, "R17o", sorted(os.path.relpath(f_, core.REPO) for f_ in _glob.glob(str(core.REPO / "phonopy/interface/*.py"))))
    from rules import shared_bcast

    shared_bcast.run(rep, "R17j", sorted(core.python_files("phonopy/interface")))


# ---------------------------------------------------------------------------


def _module_defs(rel):
    tree = core.parse(rel)
    return {n.name: n for n in tree.body if isinstance(n, (ast.FunctionDef, ast.ClassDef))}


def _arity_ok(fdef, call: ast.Call, star_extra=0):
    if isinstance(fdef, ast.ClassDef):
        init = [m for m in fdef.body if isinstance(m, ast.FunctionDef) and m.name == "__init__"]
        if not init:
            return True, ""
        params = init[0].args
        skip = 1
    else:
        params = fdef.args
        skip = 0
    names = [a.arg for a in params.args][skip:]
    n_def = len(params.defaults)
    required = names[: len(names) - n_def] if n_def else names
    if any(isinstance(a, ast.Starred) for a in call.args) or any(k.arg is None for k in call.keywords):
        return True, "star-args"
    npos = len(call.args)
    if npos > len(names) and params.vararg is None:
        return False, f"{npos} positional arguments for {len(names)} parameters"
    given = set(names[:npos]) | {k.arg for k in call.keywords}
    missing = [r for r in required if r not in given]
    if missing:
        return False, f"required parameter(s) {missing} not supplied"
    unknown = [k.arg for k in call.keywords if k.arg not in names and k.arg not in [a.arg for a in params.kwonlyargs] and params.kwarg is None]
    if unknown:
        return False, f"unknown keyword(s) {unknown}"
    return True, ""


def _r17a(rep, reg):
    tree = core.parse(CALC)
    fns = {n.name: n for n in tree.body if isinstance(n, ast.FunctionDef)}
    for fname, exceptions in DISPATCH.items():
        if fname not in fns:
            raise AnalysisError(f"anchor vanished: {CALC}::{fname}")
        br = branches(fns[fname])
        for calc in reg:
            if calc in exceptions:
                rep.instance("R17a", CALC, fname, f"{calc}: delegated ({exceptions[calc]})", calc not in br, f"documented exception no longer holds: {calc} now has a branch here", nontrivial=False)
                continue
            ok = calc in br
            rep.instance("R17a", CALC, fname, f"{calc}: has a branch", ok, f"calculator '{calc}' is registered (command option exists) but {fname} has no branch for it: the request falls through silently", line=fns[fname].lineno)
            if not ok:
                continue
            node = br[calc]
            # imported modules/functions in this branch and the calls made through them
            alias = {}
            for s in node.body:
                for n in ast.walk(s):
                    if isinstance(n, ast.Import):
                        for a in n.names:
                            alias[a.asname or a.name.split(".")[-1]] = ("module", a.name)
                    elif isinstance(n, ast.ImportFrom) and n.module:
                        for a in n.names:
                            alias[a.asname or a.name] = ("name", n.module, a.name)
            for s in node.body:
                for c in ast.walk(s):
                    if not isinstance(c, ast.Call):
                        continue
                    target = None
                    if isinstance(c.func, ast.Attribute) and isinstance(c.func.value, ast.Name) and c.func.value.id in alias and alias[c.func.value.id][0] == "module":
                        target = (alias[c.func.value.id][1], c.func.attr)
                    elif isinstance(c.func, ast.Name) and c.func.id in alias and alias[c.func.id][0] == "name":
                        target = (alias[c.func.id][1], alias[c.func.id][2])
                    if target is None or not target[0].startswith("phonopy."):
                        continue
                    rel = target[0].replace(".", "/") + ".py"
                    if not core.repo_path(rel).is_file():
                        rep.instance("R17a", CALC, fname, f"{calc}: import {target[0]}", False, f"module {target[0]} does not exist", line=c.lineno)
                        continue
                    defs = _module_defs(rel)
                    exists = target[1] in defs
                    why = f"{target[0]} has no function '{target[1]}'"
                    if exists:
                        exists, why = _arity_ok(defs[target[1]], c)
                        why = f"call {core.norm(core.src(c), 70)} does not fit {target[1]}'s signature: {why}"
                    rep.instance("R17a", CALC, fname, f"{calc}: {target[0].split('.')[-1]}.{target[1]}(…)", exists, why, line=c.lineno)
    # displacement distance: documented else-default
    dd = fns.get("get_default_displacement_distance")
    if dd is None:
        raise AnalysisError("anchor vanished: get_default_displacement_distance")
    br = branches(dd)
    listed = set(br) - {None}
    rep.instance("R17a", CALC, "get_default_displacement_distance", f"0.02 for {sorted(listed)}, 0.01 otherwise", listed <= set(reg), f"distance table names unregistered calculators {sorted(listed - set(reg))}", line=dd.lineno, nontrivial=False)
    # argparse: every registered calculator gets an option '<name>_mode'
    ad = fns.get("add_arguments_of_calculators")
    gm = fns.get("get_interface_mode")
    ok = ad is not None and gm is not None and "'%s_mode' % calculator" in core.src(ad) and "'%s_mode' % calculator" in core.src(gm)
    rep.instance("R17a", CALC, "add_arguments_of_calculators/get_interface_mode", "option dest and lookup key are both '%s_mode' % calculator", ok, "the option dest and the key get_interface_mode looks up differ")


# ---------------------------------------------------------------------------


def _units_env():
    u = symalg.fold_constants("phonopy/units.py")
    for k in ("Hartree", "Bohr", "Rydberg", "EV", "AMU", "VaspToTHz"):
        if k not in u:
            raise AnalysisError(f"anchor vanished: units.{k}")
    return u


def _fold(node, u):
    def ev(n):
        if isinstance(n, ast.Constant):
            return n.value
        if isinstance(n, ast.Name):
            return u[n.id]
        if isinstance(n, ast.BinOp):
            a, b = ev(n.left), ev(n.right)
            if a is None or b is None:
                return None
            op = type(n.op)
            if op is ast.Add:
                return a + b
            if op is ast.Sub:
                return a - b
            if op is ast.Mult:
                return a * b
            if op is ast.Div:
                return a / b
            if op is ast.Pow:
                return a**b
            raise AnalysisError(f"operator in unit value '{core.src(n)}' not supported")
        if isinstance(n, ast.UnaryOp) and isinstance(n.op, ast.USub):
            return -ev(n.operand)
        raise AnalysisError(f"unit value '{core.src(n)}' is not a constant expression")

    return ev(node)


def _r17r(rep):
    """The force-constants unit conversion, evaluated over every (unit, calculator) pair."""
    from engine import pyeval

    rep.rule("R17r", "get_force_constant_conversion_factor evaluated over its whole domain (every unit of its table x every calculator of get_default_physical_units, constants folded from units.py): the factor is (1 unit in eV/angstrom^2) / (1 default force-constants unit of that calculator in eV/angstrom^2), both from the dimensional model of the unit strings -- so that force constants stored in one unit give the same frequencies under every calculator's frequency factor", 12)
    u = symalg.fold_constants("phonopy/units.py")
    tree = core.parse(CALC)
    fn = core.find_def(CALC, "get_force_constant_conversion_factor")
    fnu = core.find_def(CALC, "get_default_physical_units")
    modes = set()
    for c in ast.walk(fnu):
        if isinstance(c, ast.Compare) and core.src(c.left) == "interface_mode":
            for x in ast.walk(c.comparators[0]):
                if isinstance(x, ast.Constant) and isinstance(x.value, str):
                    modes.add(x.value)
    tab = [st for st in ast.walk(fn) if isinstance(st, ast.Assign) and isinstance(st.value, ast.Dict) and st.value.keys and all(isinstance(k, ast.Constant) and isinstance(k.value, str) and "/" in k.value for k in st.value.keys)]
    units = sorted({k.value for t in tab for k in t.value.keys})
    if len(modes) < 12 or len(units) < 5:
        raise AnalysisError(f"R17r: {len(modes)} calculators and {len(units)} units found (16 and 6 on the confirmed tree)")
    E = pyeval.Evaluator(tree, consts=dict(u), where="get_force_constant_conversion_factor")
    n = 0
    for mode in sorted(modes):
        try:
            du = E.call(fnu, [mode])
        except (pyeval.Unknown, pyeval.Raised) as ex:
            raise AnalysisError(f"R17r: get_default_physical_units('{mode}') cannot be evaluated: {ex}")
        dfc = du.get("force_constants_unit") if isinstance(du, dict) else None
        if not isinstance(dfc, str):
            continue
        e0, a0, b0 = _parse_fc_unit(dfc, u)
        bad = []
        for unit in units:
            e1, a1, b1 = _parse_fc_unit(unit, u)
            want = (e1 / (a1 * b1)) / (e0 / (a0 * b0))
            try:
                got = E.call(fn, [unit, mode])
            except pyeval.Raised as ex:
                got = f"raises {ex}"
            except pyeval.Unknown as ex:
                raise AnalysisError(f"R17r: get_force_constant_conversion_factor('{unit}', '{mode}') cannot be evaluated: {ex}")
            n += 1
            if not (isinstance(got, (int, float)) and abs(got - want) <= 1e-9 * abs(want)):
                bad.append((unit, got, want))
        rep.instance("R17r", CALC, "get_force_constant_conversion_factor", f"calculator '{mode}' (default unit {dfc}): {len(units)} units", not bad,
                     (f"for calculator '{mode}' force constants given in '{bad[0][0]}' are converted by {bad[0][1]!r}, but 1 {bad[0][0]} is {bad[0][2]!r} {dfc}" if bad else "") + f" ({len(bad)} of {len(units)} units wrong): force constants read from a file in another unit are scaled wrongly and every frequency with them", line=fn.lineno)
    if n < 60:
        raise AnalysisError(f"R17r: only {n} (unit, calculator) pairs evaluated")


def _r17t(rep):
    """CRYSTAL: the conventional atomic numbers of the unit cell expanded to the supercell in the supercell's atom order."""
    from engine import pyeval

    CRY = "phonopy/interface/crystal.py"
    rep.rule("R17t", "CRYSTAL supercell writer: the per-atom conventional numbers of the unit cell are expanded atom by atom (each repeated once per unit cell in the supercell), which is the order of the supercell's atoms (all images of atom 1, then all images of atom 2, ...) -- evaluated for two atoms and two cells: [a, a, b, b], not the tiled [a, b, a, b]", 1)
    fn = core.find_def(CRY, "write_supercells_with_displacements")
    pn = [a.arg for a in fn.args.args]
    if "conv_numbers" not in pn or "num_unitcells_in_supercell" not in pn:
        raise AnalysisError("R17t: write_supercells_with_displacements lost its parameters conv_numbers / num_unitcells_in_supercell")
    tree = core.parse(CRY)
    E = pyeval.Evaluator(tree, where="write_supercells_with_displacements")
    E.lenient_names = True
    env = {p_: pyeval.Opaque(p_) for p_ in pn}
    env["conv_numbers"] = ["a", "b"]
    env["num_unitcells_in_supercell"] = 2
    for st in fn.body:
        try:
            E.block([st], env)
        except (pyeval.Unknown, pyeval.Raised):
            break
    cands = {k: v for k, v in env.items() if k != "conv_numbers" and isinstance(v, list) and len(v) == 4 and set(v) <= {"a", "b"}}
    if not cands:
        raise AnalysisError("R17t: the expansion of conv_numbers to the supercell is not found among the locals of write_supercells_with_displacements")
    for k, v in sorted(cands.items()):
        rep.instance("R17t", CRY, "write_supercells_with_displacements", f"{k} = {v} for conv_numbers [a, b] and two cells", v == ["a", "a", "b", "b"],
                     f"the conventional numbers are expanded to {v}, but the supercell lists all images of the first unit-cell atom before the images of the second ([a, a, b, b]): the .ext files pair the right positions with the wrong species whenever the cell has two kinds of atoms and the supercell more than one cell", line=fn.lineno)


def _parse_fc_unit(s, u):
    m = re.fullmatch(r"(\w+)/(\w+)(?:\^2|\.(\w+))", s)
    if not m:
        raise AnalysisError(f"force-constant unit string '{s}' not understood")
    e, l1, l2 = m.group(1), m.group(2), m.group(3) or m.group(2)
    if e not in ENERGY or l1 not in LENGTH or l2 not in LENGTH:
        raise AnalysisError(f"force-constant unit string '{s}' uses unknown units")
    return ENERGY[e](u), LENGTH[l1](u), LENGTH[l2](u)


def _r17b(rep, reg):
    u = _units_env()
    fn = core.find_def(CALC, "get_default_physical_units")
    br = branches(fn)
    rel = 1e-9
    for calc in reg:
        if calc not in br:
            continue
        node = br[calc]
        vals = {}
        for s in node.body:
            if isinstance(s, ast.Assign) and isinstance(s.targets[0], ast.Subscript) and core.src(s.targets[0].value) == "units":
                vals[s.targets[0].slice.value] = s.value
        qn = f"get_default_physical_units[{calc}]"
        try:
            fcu = vals["force_constants_unit"].value
            lu = vals["length_unit"].value
        except (KeyError, AttributeError):
            rep.instance("R17b", CALC, qn, "unit strings present", False, "force_constants_unit / length_unit missing", line=node.lineno)
            continue
        E, L1, L2 = _parse_fc_unit(fcu, u)
        L = LENGTH[lu](u)
        want_factor = math.sqrt(E * u["EV"] / (L1 * L2 * 1e-20) / u["AMU"]) / (2 * math.pi) / 1e12
        got = _fold(vals["factor"], u)
        rep.instance("R17b", CALC, qn, f"factor={core.src(vals['factor'])} == sqrt({fcu}/AMU)/2pi [THz]", abs(got - want_factor) <= rel * want_factor,
                     f"frequency factor {got!r} does not match the force-constant unit '{fcu}' (expected {want_factor!r}): frequencies of this calculator are scaled wrongly", line=vals["factor"].lineno,
                     sample={"calculator": calc, "fc_unit": fcu, "factor": got, "expected": want_factor})
        nac = _fold(vals["nac_factor"], u)
        want_nac = u["Hartree"] * u["Bohr"] / (E / (L1 * L2) * L**3)
        if nac is None:
            rep.instance("R17b", CALC, qn, "nac_factor=None (documented as not implemented)", calc == "cp2k", "nac_factor is None for a calculator other than cp2k", line=vals["nac_factor"].lineno, nontrivial=False)
        else:
            rep.instance("R17b", CALC, qn, f"nac_factor={core.src(vals['nac_factor'])} == e^2/4pi eps0 in ({fcu}) x ({lu})^3", abs(nac - want_nac) <= rel * want_nac,
                         f"nac_factor {nac!r} is not e^2/(4 pi eps0) expressed in '{fcu}' x '{lu}'^3 (expected {want_nac!r}): the non-analytical term is scaled by {nac / want_nac:.6g}", line=vals["nac_factor"].lineno)
        d = _fold(vals["distance_to_A"], u)
        rep.instance("R17b", CALC, qn, f"distance_to_A={core.src(vals['distance_to_A'])} == 1 {lu} in angstrom", abs(d - L) <= rel * L, f"distance_to_A {d!r} contradicts length_unit '{lu}' ({L!r})", line=vals["distance_to_A"].lineno)
        fu = vals.get("force_unit")
        if fu is not None and isinstance(fu, ast.Constant):
            m = re.fullmatch(r"(\w+)/(\w+)", fu.value)
            if not m or m.group(1) not in ENERGY or m.group(2) not in LENGTH:
                raise AnalysisError(f"force unit '{fu.value}' not understood")
            fe, fl = ENERGY[m.group(1)](u), LENGTH[m.group(2)](u)
            if "force_to_eVperA" in vals:
                f2 = _fold(vals["force_to_eVperA"], u)
                if f2 is not None:
                    rep.instance("R17b", CALC, qn, f"force_to_eVperA={core.src(vals['force_to_eVperA'])} == 1 {fu.value} in eV/angstrom", abs(f2 - fe / fl) <= rel * fe / fl,
                                 f"force_to_eVperA {f2!r} contradicts force_unit '{fu.value}' ({fe / fl!r})", line=vals["force_to_eVperA"].lineno)
            # force unit x length unit pairs with the FC unit: FC = force / length
            ok = abs((fe / fl) / L - E / (L1 * L2)) <= rel * E / (L1 * L2) or abs((fe / fl) / L1 - E / (L1 * L2)) <= rel * E / (L1 * L2) or abs((fe / fl) / L2 - E / (L1 * L2)) <= rel * E / (L1 * L2)
            rep.instance("R17b", CALC, qn, f"force unit {fu.value} / length = force-constant unit {fcu}", ok, f"'{fu.value}' per '{lu}' is not '{fcu}'", line=fu.lineno)
    # conversion table
    cf = core.find_def(CALC, "get_force_constant_conversion_factor")
    tab = [s for s in ast.walk(cf) if isinstance(s, ast.Assign) and core.src(s.targets[0]) == "factor_to_eVperA2" and isinstance(s.value, ast.Dict)]
    if not tab:
        raise AnalysisError("anchor vanished: factor_to_eVperA2")
    for k, v in zip(tab[0].value.keys, tab[0].value.values):
        E, L1, L2 = _parse_fc_unit(k.value, u)
        got = _fold(v, u)
        want = E / (L1 * L2)
        rep.instance("R17b", CALC, "get_force_constant_conversion_factor", f"'{k.value}' -> {core.src(v)} eV/angstrom^2", abs(got - want) <= rel * want, f"table entry {got!r} is not 1 {k.value} in eV/angstrom^2 ({want!r})", line=v.lineno)
    used = set()
    fnu = core.find_def(CALC, "get_default_physical_units")
    for s in ast.walk(fnu):
        if isinstance(s, ast.Assign) and isinstance(s.targets[0], ast.Subscript) and isinstance(s.targets[0].slice, ast.Constant) and s.targets[0].slice.value == "force_constants_unit" and isinstance(s.value, ast.Constant) and s.value.value:
            used.add(s.value.value)
    keys = {k.value for k in tab[0].value.keys}
    rep.instance("R17b", CALC, "get_force_constant_conversion_factor", f"table covers the units used {sorted(used)}", used <= keys, f"units {sorted(used - keys)} are used by a calculator but missing from the conversion table", line=tab[0].lineno)
    # the *ToTHz constants themselves
    for name, (e, l1, l2) in {"VaspToTHz": ("eV", "angstrom", "angstrom"), "PwscfToTHz": ("Ry", "au", "au"), "Wien2kToTHz": ("mRy", "au", "au"), "ElkToTHz": ("hartree", "au", "au"), "AbinitToTHz": ("eV", "angstrom", "au"), "SiestaToTHz": ("eV", "angstrom", "au"), "CP2KToTHz": ("hartree", "angstrom", "au"), "DftbpToTHz": ("hartree", "au", "au")}.items():
        if name not in u:
            raise AnalysisError(f"anchor vanished: units.{name}")
        want = math.sqrt(ENERGY[e](u) * u["EV"] / (LENGTH[l1](u) * LENGTH[l2](u) * 1e-20) / u["AMU"]) / (2 * math.pi) / 1e12
        rep.instance("R17b", "phonopy/units.py", name, f"{name} == sqrt({e}/({l1}.{l2})/AMU)/2pi/1e12", abs(u[name] - want) <= rel * want, f"{name}={u[name]!r}, expected {want!r}")


# ---------------------------------------------------------------------------
# R17c order domains
# ---------------------------------------------------------------------------

ORIG_ATTRS = {"symbols", "numbers", "masses", "magnetic_moments", "scaled_positions", "positions"}
ORIG_GETTERS = {"get_chemical_symbols", "get_scaled_positions", "get_positions", "get_masses", "get_magnetic_moments", "get_atomic_numbers"}
# per-atom parameters of writers, in the atom order of the cell they accompany (confirmed by reading the reader side)
PARAM_ORIG = {
    ("phonopy/interface/fleur.py", "get_fleur_structure", "speci"): "species labels per unit-cell atom in file order; repeated N times they follow the supercell's original atom order (u2s blocks)",
    ("phonopy/interface/crystal.py", "get_crystal_structure", "conv_numbers"): "conventional atomic numbers per atom in the cell's atom order",
}


def _r17c(rep):
    n_fn = 0
    for rel in sorted(core.python_files("phonopy/interface")):
        base = rel.split("/")[-1]
        if base in ("calculator.py", "phonopy_yaml.py", "alm.py", "symfc.py", "mlp.py", "pypolymlp.py", "fc_calculator.py", "cif.py", "__init__.py"):
            continue
        tree = core.parse(rel)
        for fn in [n for n in ast.walk(tree) if isinstance(n, ast.FunctionDef)]:
            if not (fn.name.startswith("get_") and "structure" in fn.name or fn.name.startswith("write_") or fn.name.startswith("_get_")):
                continue
            params = [a.arg for a in fn.args.args]
            cellp = [p for p in params if p in ("cell", "atoms", "supercell", "unitcell")]
            if not cellp:
                continue
            n_fn += 1
            dom = {}  # name -> 'ORIG' | 'SORTED' | 'GROUPED' | 'PERM'
            for p in params:
                if (rel, fn.name, p) in PARAM_ORIG:
                    dom[p] = "ORIG"

            def expr_dom(e):
                if isinstance(e, ast.Name):
                    return dom.get(e.id)
                if isinstance(e, ast.Attribute) and isinstance(e.value, ast.Name) and e.value.id in cellp and e.attr in ORIG_ATTRS:
                    return "ORIG"
                if isinstance(e, ast.Call) and isinstance(e.func, ast.Attribute) and isinstance(e.func.value, ast.Name) and e.func.value.id in cellp and e.func.attr in ORIG_GETTERS:
                    return "ORIG"
                if isinstance(e, ast.Call) and core.src(e.func) in ("list", "np.array", "tuple") and e.args:
                    return expr_dom(e.args[0])
                if isinstance(e, ast.Call) and core.src(e.func) in ("itertools.chain.from_iterable",) and e.args:
                    # chain(repeat(x, N) for x in speci): per-atom blocks in the order of speci
                    for n in ast.walk(e.args[0]):
                        if isinstance(n, ast.Name) and dom.get(n.id):
                            return dom[n.id]
                if isinstance(e, ast.ListComp) and len(e.generators) == 1 and isinstance(e.elt, ast.Subscript) and isinstance(e.generators[0].target, ast.Name):
                    g = e.generators[0]
                    if isinstance(e.elt.slice, ast.Name) and e.elt.slice.id == g.target.id and isinstance(g.iter, ast.Name) and dom.get(g.iter.id) == "PERM" and expr_dom(e.elt.value) == "ORIG":
                        return "SORTED"
                if isinstance(e, ast.Subscript):
                    d = expr_dom(e.value)
                    if d == "ORIG" and isinstance(e.slice, ast.Name) and dom.get(e.slice.id) == "PERM":
                        return "SORTED"
                    if isinstance(e.slice, ast.Slice):
                        return d
                return None

            for s in sorted([x for x in ast.walk(fn) if isinstance(x, ast.Assign)], key=lambda x: x.lineno):
                if isinstance(s, ast.Assign) and len(s.targets) == 1:
                    t, v = s.targets[0], s.value
                    if isinstance(v, ast.Subscript) and isinstance(v.value, ast.Call) and core.src(v.value.func).endswith("sort_positions_by_symbols") and isinstance(v.slice, ast.Constant) and isinstance(t, ast.Name):
                        dom[t.id] = ("GROUPED", "GROUPED", "SORTED", "PERM")[v.slice.value]
                    elif isinstance(v, ast.Call) and core.src(v.func).endswith("sort_positions_by_symbols") and isinstance(t, ast.Tuple) and len(t.elts) == 4:
                        for k, kind in enumerate(("GROUPED", "GROUPED", "SORTED", "PERM")):
                            if isinstance(t.elts[k], ast.Name):
                                dom[t.elts[k].id] = kind
                    elif isinstance(t, ast.Name):
                        if "Counter(" in core.src(v):
                            dom[t.id] = "GROUPED"
                        else:
                            d = expr_dom(v)
                            if d:
                                dom[t.id] = d
            # running offsets over grouped counts: idx += counts[i] / range(idx, idx + counts[i])
            sorted_idx = set()
            for s in ast.walk(fn):
                if isinstance(s, ast.For) and isinstance(s.target, ast.Name) and isinstance(s.iter, ast.Call) and core.src(s.iter.func) == "range" and len(s.iter.args) == 2:
                    a0, a1 = s.iter.args
                    if isinstance(a0, ast.Name) and isinstance(a1, ast.BinOp) and isinstance(a1.op, ast.Add) and core.src(a1.left) == a0.id:
                        cnt = a1.right
                        if isinstance(cnt, ast.Subscript) and dom.get(core.src(cnt.value)) == "GROUPED" or (isinstance(cnt, ast.Name) and dom.get(cnt.id) == "GROUPED"):
                            sorted_idx.add(s.target.id)
                        elif isinstance(cnt, ast.Name):
                            # count variable bound by iterating over a GROUPED sequence
                            for f2 in ast.walk(fn):
                                if isinstance(f2, ast.For) and cnt.id in {x.id for x in ast.walk(f2.target) if isinstance(x, ast.Name)} and any(dom.get(x.id) == "GROUPED" for x in ast.walk(f2.iter) if isinstance(x, ast.Name)):
                                    sorted_idx.add(s.target.id)
            findings = []
            # (A) ORIG[ sorted-domain index ]
            for n in ast.walk(fn):
                if isinstance(n, ast.Subscript) and isinstance(n.slice, ast.Name) and n.slice.id in sorted_idx and expr_dom(n.value) == "ORIG":
                    findings.append((n, f"'{core.src(n)}': '{core.src(n.value)}' is in the cell's original atom order but '{n.slice.id}' runs over atoms grouped by species"))
            # (B) same loop variable / zip pairs ORIG with SORTED
            for lp in ast.walk(fn):
                if isinstance(lp, ast.For):
                    if isinstance(lp.iter, ast.Call) and core.src(lp.iter.func) == "zip":
                        ds = [(expr_dom(a), core.src(a)) for a in lp.iter.args]
                        if {"ORIG", "SORTED"} <= {d for d, _ in ds}:
                            findings.append((lp, f"zip({', '.join(t for _, t in ds)}) pairs a sequence in original order with one sorted by species"))
                    if isinstance(lp.target, ast.Name):
                        v = lp.target.id
                        used = {}
                        for n in ast.walk(lp):
                            if isinstance(n, ast.Subscript) and isinstance(n.slice, ast.Name) and n.slice.id == v:
                                d = expr_dom(n.value)
                                if d in ("ORIG", "SORTED"):
                                    used.setdefault(d, core.src(n))
                        if {"ORIG", "SORTED"} <= set(used):
                            findings.append((lp, f"'{used['ORIG']}' (original atom order) and '{used['SORTED']}' (sorted by species) are indexed by the same '{v}'"))
            rep.instance("R17c", rel, fn.name, "per-atom sequences paired in the same atom order", not findings,
                         (findings[0][1] + ": species and positions are mis-paired whenever the atoms of the cell are not already grouped by species") if findings else "",
                         line=findings[0][0].lineno if findings else fn.lineno, nontrivial=bool(dom))
    if n_fn < 16:
        raise AnalysisError(f"R17c: only {n_fn} structure writers found")


# ---------------------------------------------------------------------------


def _r17e(rep):
    rel = "phonopy/cui/create_force_sets.py"
    fn = core.find_def(rel, "create_FORCE_SETS")
    calls = [c for c in ast.walk(fn) if isinstance(c, ast.Call) and core.src(c.func) == "check_agreements_of_displacements"]
    if not calls:
        raise AnalysisError("anchor vanished: check_agreements_of_displacements call in create_FORCE_SETS")
    c = calls[0]
    under_points = False
    refuses = False
    cur = getattr(c, "_parent", None)
    while cur is not None and cur is not fn:
        if isinstance(cur, ast.If):
            if "'points' in calc_dataset" in core.src(cur.test) and cur.test is not c and not any(x is c for x in ast.walk(cur.test)):
                under_points = True
            if any(x is c for x in ast.walk(cur.test)):
                refuses = any(isinstance(b, (ast.Raise, ast.Return)) for b in cur.body)
        cur = getattr(cur, "_parent", None)
    if not refuses:
        # result stored, then tested
        par = getattr(c, "_parent", None)
        if isinstance(par, ast.Assign) and isinstance(par.targets[0], ast.Name):
            nm = par.targets[0].id
            for x in ast.walk(fn):
                if isinstance(x, ast.If) and nm in {n.id for n in ast.walk(x.test) if isinstance(n, ast.Name)} and any(isinstance(b, (ast.Raise, ast.Return)) for b in x.body):
                    refuses = True
    # the refusal precedes the pairing of forces with the dataset
    pair = [n for n in ast.walk(fn) if isinstance(n, ast.Call) and core.src(n.func) in ("forces_in_dataset", "write_FORCE_SETS", "_subtract_residual_forces", "get_FORCE_SETS_lines")]
    before = all(c.lineno < p.lineno for p in pair) if pair else True
    rep.instance("R17e", rel, "create_FORCE_SETS", "positions in calculator output are checked against the dataset and a mismatch refuses (raise/return) before forces are paired", under_points and refuses and before,
                 f"under_points={under_points}, refuses={refuses}, before_pairing={before}: forces can be paired with the wrong atoms without complaint", line=c.lineno)
    chk = core.find_def(rel, "check_agreements_of_displacements")
    rets = [r for r in ast.walk(chk) if isinstance(r, ast.Return) and r.value is not None]
    guarded = False
    for r in rets:
        cur = getattr(r, "_parent", None)
        while cur is not None and cur is not chk:
            if isinstance(cur, ast.If) and ".any()" in core.src(cur.test) and ">" in core.src(cur.test):
                guarded = True
            cur = getattr(cur, "_parent", None)
    wraps = any(isinstance(x, ast.AugAssign) and isinstance(x.op, ast.Sub) and "np.rint" in core.src(x.value) for x in ast.walk(chk))
    rep.instance("R17e", rel, "check_agreements_of_displacements", "returns the offending file when any atom deviates by more than the tolerance, modulo lattice vectors", bool(rets) and guarded and wraps,
                 f"returns={len(rets)}, threshold test={guarded}, wraps by lattice vectors={wraps}", line=chk.lineno)


# ---------------------------------------------------------------------------


def _r17f(rep, reg):
    tree = core.parse(CALC)
    fns = {n.name: n for n in tree.body if isinstance(n, ast.FunctionDef)}
    rd = branches(fns["read_crystal_structure"])
    shapes = {}
    for calc in reg:
        node = rd.get(calc)
        if node is None:
            continue
        for st in node.body:
            for r in ast.walk(st):
                if isinstance(r, ast.Return) and isinstance(r.value, ast.Tuple) and len(r.value.elts) == 2 and isinstance(r.value.elts[1], ast.Tuple):
                    shapes[calc] = len(r.value.elts[1].elts)
    if len(shapes) < 14:
        raise AnalysisError(f"R17f: structure-info tuple length extracted for {len(shapes)} calculators only")
    for fname in ("write_crystal_structure", "write_supercells_with_displacements"):
        br = branches(fns[fname])
        for calc, n in shapes.items():
            node = br.get(calc)
            if node is None:
                continue
            for s in node.body:
                for x in ast.walk(s):
                    if isinstance(x, ast.Subscript) and core.src(x.value) == "optional_structure_info" and isinstance(x.slice, ast.Constant) and isinstance(x.slice.value, int):
                        k = x.slice.value
                        rep.instance("R17f", CALC, fname, f"{calc}: optional_structure_info[{k}] of a {n}-tuple", -n <= k < n, f"index {k} is outside the {n}-tuple that read_crystal_structure returns for {calc}", line=x.lineno)
                    if isinstance(x, ast.Assign) and core.src(x.value) == "optional_structure_info" and isinstance(x.targets[0], ast.Tuple):
                        m = len(x.targets[0].elts)
                        rep.instance("R17f", CALC, fname, f"{calc}: {core.src(x.targets[0])} = optional_structure_info ({n}-tuple)", m == n,
                                     f"unpacking {m} names from the {n}-tuple (filename, …) that read_crystal_structure returns for {calc}: ValueError at run time", line=x.lineno)


def _r17h(rep):
    """Index-domain typing of sort_positions_by_symbols, the grouping primitive of the VASP/Elk/Fleur/ABACUS writers.
    A sequence is typed (index domain, value domain); domains: atom, FA (species in order of first appearance),
    AL (species in sorted order, as np.unique returns them), sym, count, grouped:<K> (atoms stably grouped by key K)."""
    rep.rule("R17h", "stable grouping by species: the per-atom sort key is the rank of the atom's species in the species list that is returned as the header (same order domain for counts, symbols and grouping); every subscript indexes a sequence by values of its own index domain", 2)
    rel = "phonopy/interface/vasp.py"
    fn = core.find_def(rel, "sort_positions_by_symbols")
    sym_param = fn.args.args[0].arg
    env = {sym_param: ("atom", "sym", False)}
    local_fns = {f.name: f for f in fn.body if isinstance(f, ast.FunctionDef)}
    problems = []

    def is_stable_argsort_fn(f):
        t = core.src(f)
        return "sorted(range(len(" in t and "__getitem__" in t

    def ty(e):
        if isinstance(e, ast.Name):
            return env.get(e.id)
        if isinstance(e, ast.Call):
            f = core.src(e.func)
            a0 = e.args[0] if e.args else None
            if f in ("list", "np.array", "np.asarray", "tuple") and a0 is not None:
                return ty(a0)
            if isinstance(e.func, ast.Attribute) and e.func.attr in ("tolist", "copy", "astype"):
                return ty(e.func.value)
            if f == "dict.fromkeys" and a0 is not None:
                t = ty(a0)
                return ("FA", t[1], True) if t and t[0] == "atom" else None
            if f in ("Counter", "collections.Counter") and a0 is not None:
                t = ty(a0)
                return ("map", t[1], "count") if t else None
            if f == "np.argsort" or f.endswith(".argsort"):
                t = ty(a0 if f == "np.argsort" else e.func.value)
                stable = any(k.arg == "kind" and isinstance(k.value, ast.Constant) and k.value.value in ("stable", "mergesort") for k in e.keywords)
                if t is None:
                    return None
                if t[:2] == ("AL", "atom1st"):
                    return ("FA", "AL", True)  # species in order of their first atom
                if t[2]:
                    return (t[1], t[0], True)  # argsort of a bijection is its inverse
                if stable and t[0] == "atom":
                    return ("grouped:" + t[1], "atom", True)
                return None
            if f in local_fns and is_stable_argsort_fn(local_fns[f]) and a0 is not None:
                t = ty(a0)
                return ("grouped:" + t[1], "atom", True) if t and t[0] == "atom" else None
            if f == "sorted" and a0 is not None and core.src(a0).startswith("range(len(") and any(k.arg == "key" for k in e.keywords):
                k = [k.value for k in e.keywords if k.arg == "key"][0]
                if isinstance(k, ast.Attribute) and k.attr == "__getitem__":
                    t = ty(k.value)
                    return ("grouped:" + t[1], "atom", True) if t and t[0] == "atom" else None
            return None
        if isinstance(e, ast.Subscript):
            a, b = ty(e.value), ty(e.slice)
            if a and b and a[0] != "map":
                if b[1] != a[0]:
                    problems.append((e, f"'{core.src(e)}': '{core.src(e.value)}' is indexed by {a[0]} but '{core.src(e.slice)}' holds {b[1]} indices"))
                    return None
                return (b[0], a[1], a[2] and b[2])
            return None
        if isinstance(e, ast.ListComp) and len(e.generators) == 1 and isinstance(e.generators[0].target, ast.Name):
            g = e.generators[0]
            it = ty(g.iter)
            v = g.target.id
            if it is None:
                return None
            el = e.elt
            # M[v]
            if isinstance(el, ast.Subscript) and core.src(el.slice) == v:
                m = ty(el.value)
                if m and m[0] == "map" and m[1] == it[1]:
                    return (it[0], m[2], False)
                return None
            # X.index(v)
            if isinstance(el, ast.Call) and isinstance(el.func, ast.Attribute) and el.func.attr == "index" and len(el.args) == 1 and core.src(el.args[0]) == v:
                x = ty(el.func.value)
                if x and x[1] == it[1] and x[2]:
                    return (it[0], x[0], False)
                return None
            return None
        if isinstance(e, ast.DictComp) and len(e.generators) == 1:
            g = e.generators[0]
            if isinstance(g.iter, ast.Call) and core.src(g.iter.func) == "enumerate" and isinstance(g.target, ast.Tuple) and len(g.target.elts) == 2:
                x = ty(g.iter.args[0])
                kname, vname = core.src(g.target.elts[0]), core.src(g.target.elts[1])
                if x and core.src(e.key) == vname and core.src(e.value) == kname:
                    return ("map", x[1], x[0])
            return None
        return None

    for st in fn.body:
        if not isinstance(st, ast.Assign):
            continue
        t = st.targets[0]
        if isinstance(t, ast.Name):
            v = ty(st.value)
            if v:
                env[t.id] = v
        elif isinstance(t, ast.Tuple) and isinstance(st.value, ast.Call) and core.src(st.value.func) == "np.unique":
            kws = {k.arg for k in st.value.keywords if isinstance(k.value, ast.Constant) and k.value.value is True}
            base = ty(st.value.args[0]) if st.value.args else None
            outs = [("AL", base[1] if base else "sym", True)]
            if "return_index" in kws:
                outs.append(("AL", "atom1st", False))
            if "return_inverse" in kws:
                outs.append(("atom", "AL", False))
            if "return_counts" in kws:
                outs.append(("AL", "count", False))
            if base and base[0] == "atom" and len(outs) == len(t.elts):
                for nm, o in zip(t.elts, outs):
                    if isinstance(nm, ast.Name):
                        env[nm.id] = o
    for r in ast.walk(fn):
        if isinstance(r, ast.Return) and r.value is not None and core.enclosing_function(r) is fn:
            r.value = core.resolve_name(fn, r.value)  # `ret = (a, b, c, d); return ret`
    rets = [r for r in ast.walk(fn) if isinstance(r, ast.Return) and isinstance(r.value, ast.Tuple) and len(r.value.elts) == 4 and core.enclosing_function(r) is fn]
    if not rets:
        raise AnalysisError("R17h: sort_positions_by_symbols no longer returns (counts, symbols, positions, perm)")
    counts, syms, _, perm = (ty(x) for x in rets[0].value.elts)
    for node, msg in problems:
        rep.instance("R17h", rel, "sort_positions_by_symbols", core.norm(core.src(node), 70), False,
                     msg + ": the grouping of the positions follows a different species order than the header (counts / symbols), so positions are attached to the wrong species whenever the order of first appearance is not an involution of the sorted order (three or more species)", line=node.lineno)
    if not problems:
        if not (counts and syms and perm):
            rep.unknown(f"R17h: types not determined (counts={counts}, symbols={syms}, perm={perm})")
        else:
            rep.instance("R17h", rel, "sort_positions_by_symbols", f"header symbols indexed by {syms[0]}, counts by {counts[0]}, atoms {perm[0]}", counts[0] == syms[0] and perm[0] == "grouped:" + syms[0] and counts[1] == "count",
                         f"the positions are grouped by {perm[0]} while the header lists the species in {syms[0]} order (counts in {counts[0]} order)", line=rets[0].lineno)
    rep.instance("R17h", rel, "sort_positions_by_symbols", "grouping permutation comes from a stable sort", perm is None or perm[0].startswith("grouped:"), "the permutation is not a stable grouping", line=fn.lineno, nontrivial=False)
    rep.instance("R17h", rel, "sort_positions_by_symbols", f"{len(problems)} index-domain mismatches", not problems, "see above", line=fn.lineno, nontrivial=False) if not problems else None


def _r17g(rep):
    """Index-domain typing of LammpsForcesLoader._parse: F = file-row order, I = atom-id order."""
    rel = "phonopy/interface/lammps.py"
    fn = core.find_def(rel, "LammpsForcesLoader._parse")
    loops = []
    for lp in [n for n in ast.walk(fn) if isinstance(n, ast.For)]:
        tnames = {x.id for x in ast.walk(lp.target) if isinstance(x, ast.Name)}
        splits = [s for s in lp.body if isinstance(s, ast.Assign) and isinstance(s.value, ast.Call) and core.src(s.value.func).split(".")[-1] == "split" and {x.id for x in ast.walk(s.value) if isinstance(x, ast.Name)} & tnames]
        stores = [s for s in ast.walk(lp) if isinstance(s, ast.Assign) and isinstance(s.targets[0], ast.Subscript)]
        if splits and stores:
            loops.append((lp, splits[0].targets[0].id))
    if not loops:
        raise AnalysisError("R17g: the row loop of LammpsForcesLoader._parse vanished")
    lp, row = loops[-1]
    idx_names = set()
    if isinstance(lp.iter, ast.Call) and core.src(lp.iter.func) == "enumerate" and isinstance(lp.target, ast.Tuple) and isinstance(lp.target.elts[0], ast.Name):
        idx_names.add(lp.target.elts[0].id)
    for s in ast.walk(lp):
        if isinstance(s, ast.AugAssign) and isinstance(s.target, ast.Name) and isinstance(s.op, ast.Add):
            idx_names.add(s.target.id)

    def from_row0(e):
        return isinstance(e, ast.Call) and core.src(e.func) == "int" and e.args and core.src(e.args[0]) == f"{row}[0]"

    id_scalars = {s.targets[0].id for s in ast.walk(lp) if isinstance(s, ast.Assign) and isinstance(s.targets[0], ast.Name) and from_row0(s.value)}
    id_arrays = set()
    dom = {}
    where = {}

    def names(e):
        return {x.id for x in ast.walk(e) if isinstance(x, ast.Name)}

    def idx_class(e):
        ns = names(e)
        if isinstance(e, ast.Call) and (core.src(e.func) == "np.argsort" or core.src(e.func).endswith(".argsort")) and ns & id_arrays:
            return "argsort"
        if ns & id_scalars:
            return "I"
        if ns & id_arrays:
            return "Ivec"
        if ns & idx_names:
            return "F"
        return None

    for s in [x for x in ast.walk(lp) if isinstance(x, ast.Assign) and isinstance(x.targets[0], ast.Subscript)]:
        t = s.targets[0]
        k = core.src(t.value)
        c = idx_class(t.slice)
        if from_row0(s.value) and c == "F":
            id_arrays.add(k)
            continue
        if c in ("I", "F"):
            if row in names(s.value):
                dom[k] = c
                where[k] = s
            elif c == "I":
                dom.setdefault(k, "Iflag")
    for s in ast.walk(lp):
        if isinstance(s, ast.Expr) and isinstance(s.value, ast.Call) and isinstance(s.value.func, ast.Attribute) and s.value.func.attr == "append" and s.value.args:
            k = core.src(s.value.func.value)
            if from_row0(s.value.args[0]):
                id_arrays.add(k)
            elif row in names(s.value.args[0]):
                dom[k] = "F"
    if not id_scalars and not id_arrays:
        rep.instance("R17g", rel, "LammpsForcesLoader._parse", "each dump row's atom id is read", False, "the atom id of a dump row is no longer read: rows of an unsorted dump are assigned to the wrong atoms", line=lp.lineno)
        return
    findings = []

    def val_dom(e):
        if isinstance(e, (ast.Name, ast.Attribute)):
            return dom.get(core.src(e))
        if isinstance(e, ast.Call) and core.src(e.func) in ("np.array", "np.asarray", "np.ascontiguousarray") and e.args:
            return val_dom(e.args[0])
        if isinstance(e, ast.Subscript):
            d = val_dom(e.value)
            c = idx_class(e.slice)
            if isinstance(e.slice, ast.Slice):
                return d
            if d == "F" and c == "Ivec":
                findings.append((e, f"'{core.src(e)}' gathers the file-ordered rows through the atom ids: row k of the result is the row of the atom whose id stands on file line (id_k), the inverse of the permutation needed"))
                return "bad"
            if d == "F" and c == "argsort":
                return "I"
            return None
        return None

    after = [s for s in fn.body if s.lineno > lp.end_lineno]
    refusal = False
    for s in after:
        for a in [x for x in ast.walk(s) if isinstance(x, (ast.Assert, ast.Raise, ast.If))]:
            t = a.test if isinstance(a, (ast.Assert, ast.If)) else a
            if isinstance(a, ast.If) and not any(isinstance(x, ast.Raise) for x in ast.walk(a)):
                continue
            if names(t) & (id_arrays | {k for k, v in dom.items() if v == "Iflag"}):
                refusal = True
        if isinstance(s, ast.Assign):
            t = s.targets[0]
            if isinstance(t, ast.Subscript):
                c = idx_class(t.slice)
                if c == "Ivec" and val_dom(s.value) == "F":
                    dom[core.src(t.value)] = "I"
            else:
                d = val_dom(s.value)
                if d:
                    dom[core.src(t)] = d
    res = dom.get("self._forces")
    for node, msg in findings:
        rep.instance("R17g", rel, "LammpsForcesLoader._parse", core.norm(core.src(node), 60), False, msg + ": forces of a dump that is not sorted by id land on the wrong atoms", line=node.lineno)
    rep.instance("R17g", rel, "LammpsForcesLoader._parse", f"self._forces is in atom-id order (ids: {sorted(id_scalars | id_arrays)})", res == "I" or (res == "bad"),
                 "the forces are kept in file order although every row names its atom id: rows of an unsorted dump are assigned to the wrong atoms", line=lp.lineno) if res in ("I", "F", "bad") else rep.unknown("R17g: order domain of self._forces not determined")
    rep.instance("R17g", rel, "LammpsForcesLoader._parse", "an incomplete or repeated set of atom ids is refused", refusal, "nothing checks that every atom id was seen exactly once: a truncated or duplicated dump silently yields zero forces for some atoms", line=lp.end_lineno)
    rep.instance("R17g", rel, "LammpsForcesLoader._parse", f"{len(findings)} inverse-permutation gathers", not findings, "see above", line=lp.lineno, nontrivial=False) if not findings else None



def _r17i(rep):
    """Lookup-index typing: an index obtained by looking a value up in a sequence belongs to the order of that sequence."""
    rep.rule("R17i", "an index found by looking a value up in a sequence (Y.index(v), a dictionary built from enumerate(Y), np.where(Y == v)) subscripts only sequences in the order of Y: Y itself, or lists filled by append next to Y (same statement block, i.e. one entry per entry of Y); in the WIEN2k reader the forces of the inequivalent atoms are stored in case.scf order and must be addressed through the list of their phonopy atoms kept in the same order", 1)
    n_inst = 0
    for rel in sorted(core.python_files("phonopy/interface")):
        tree = core.parse(rel)
        for fn in [x for x in ast.walk(tree) if isinstance(x, ast.FunctionDef)]:
            # order class of every list filled by append: the statement block of its appends (one block only), or the
            # sequence iterated over when the append is the loop body's own statement (one entry per element)
            blocks: dict[str, set] = {}
            for st in ast.walk(fn):
                if isinstance(st, ast.Expr) and isinstance(st.value, ast.Call) and isinstance(st.value.func, ast.Attribute) and st.value.func.attr == "append" and isinstance(st.value.func.value, ast.Name):
                    par = getattr(st, "_parent", None)
                    key = ("block", id(par), tuple(id(x) for x in getattr(par, "body", [])) if st in getattr(par, "body", []) else "orelse")
                    if isinstance(par, ast.For) and st in par.body:
                        it = par.iter
                        if isinstance(it, ast.Call) and core.src(it.func) in ("enumerate", "zip") and it.args and all(isinstance(a, ast.Name) for a in it.args):
                            key = ("seqs", frozenset(a.id for a in it.args), id(par))
                        elif isinstance(it, ast.Name):
                            key = ("seqs", frozenset([it.id]), id(par))
                    blocks.setdefault(st.value.func.value.id, set()).add(key)
            cls = {nm: next(iter(ks)) for nm, ks in blocks.items() if len(ks) == 1}

            def dom(name):
                return cls.get(name, ("name", name))

            def same(a, b):
                if a == b:
                    return True
                # a list with one entry per element of S is in the order of S
                for x, y in ((a, b), (b, a)):
                    if x[0] == "seqs" and y[0] == "name" and y[1] in x[1]:
                        return True
                return False

            idx: dict[str, tuple] = {}
            dicts: dict[str, tuple] = {}
            for st in ast.walk(fn):
                if not (isinstance(st, ast.Assign) and len(st.targets) == 1 and isinstance(st.targets[0], ast.Name)):
                    continue
                v, t = st.value, st.targets[0].id
                if isinstance(v, ast.DictComp) and len(v.generators) == 1:
                    g = v.generators[0]
                    if isinstance(g.iter, ast.Call) and core.src(g.iter.func) == "enumerate" and g.iter.args and isinstance(g.iter.args[0], ast.Name) and isinstance(g.target, ast.Tuple) and len(g.target.elts) == 2 and core.src(v.value) == core.src(g.target.elts[0]):
                        dicts[t] = dom(g.iter.args[0].id)
            for st in ast.walk(fn):
                if not (isinstance(st, ast.Assign) and len(st.targets) == 1 and isinstance(st.targets[0], ast.Name)):
                    continue
                v, t = st.value, st.targets[0].id
                d = None
                if isinstance(v, ast.Call) and isinstance(v.func, ast.Attribute) and v.func.attr == "index" and isinstance(v.func.value, ast.Name) and len(v.args) == 1:
                    d = dom(v.func.value.id)
                elif isinstance(v, ast.Subscript) and isinstance(v.value, ast.Name) and v.value.id in dicts:
                    d = dicts[v.value.id]
                if d is not None:
                    idx[t] = d if t not in idx or idx[t] == d else ("mixed",)
            for sub in ast.walk(fn):
                if isinstance(sub, ast.Subscript) and isinstance(sub.ctx, ast.Load) and isinstance(sub.value, ast.Name) and isinstance(sub.slice, ast.Name) and sub.slice.id in idx:
                    zi, zd = idx[sub.slice.id], dom(sub.value.id)
                    if zi == ("mixed",) or sub.value.id in dicts:
                        continue
                    if zd[0] == "name" and not same(zi, zd):
                        continue  # a sequence whose construction is not visible here: cannot tell
                    n_inst += 1
                    rep.instance("R17i", rel, fn.name, f"{core.src(sub)}: index looked up in the order of {'the list(s) built next to it' if zi[0] == 'block' else sorted(zi[1]) if zi[0] == 'seqs' else zi[1]}", same(zi, zd),
                                 f"{sub.value.id} is filled in one order (the loop that appends to it) but {sub.slice.id} is the position of the value in {zi[1] if zi[0] == 'name' else 'another sequence'}: when the two orders differ (case.scf lists the inequivalent atoms in another order than phonopy's independent atoms) entry {sub.slice.id} belongs to a different atom, and nothing refuses", line=sub.lineno)
    if not n_inst:
        raise AnalysisError("R17i: no looked-up index subscripts a list built by append any more (WIEN2k force distribution on the confirmed tree)")



def _r17k(rep):
    """The cell rebuilt from lengths and angles (LAMMPS orientation) has those lengths and angles: Gram-matrix identities."""
    import sympy as sp

    from engine import symnp

    CELLS_ = "phonopy/structure/cells.py"
    rep.rule("R17k", "get_cell_matrix(a, b, c, alpha, beta, gamma) returns a lower-triangular lattice whose Gram matrix is that of the six parameters: |a_1| = a, |a_2| = b, |a_3| = c, a_1.a_2 = ab cos(gamma), a_1.a_3 = ac cos(beta), a_2.a_3 = bc cos(alpha) (symbolic evaluation of the function body and trigonometric simplification); the LAMMPS writer and the back-rotation of LAMMPS forces rely on it being a rigid rotation of the input cell", 6)
    fn = core.find_def(CELLS_, "get_cell_matrix")
    ps = [a.arg for a in fn.args.args]
    if len(ps) < 6:
        raise AnalysisError("get_cell_matrix: fewer than six parameters")
    A, B, C_ = sp.symbols("a b c", positive=True)
    al, be, ga = sp.symbols("alpha beta gamma", positive=True)
    env = dict(zip(ps[:6], (A, B, C_, al, be, ga)))

    def hook(call, ev):
        f = core.src(call.func)
        if f in ("np.cos", "np.sin", "np.sqrt", "np.tan", "math.cos", "math.sin", "math.sqrt") and len(call.args) == 1:
            g = {"cos": sp.cos, "sin": sp.sin, "sqrt": sp.sqrt, "tan": sp.tan}[f.split(".")[-1]]
            v = ev.ev(call.args[0])
            return [g(x) for x in v] if isinstance(v, list) else g(v)
        if f in ("np.zeros",) and call.args:
            shp = ast.literal_eval(call.args[0]) if isinstance(call.args[0], (ast.Tuple, ast.Constant)) else None
            if shp == (3, 3):
                return [[sp.Integer(0)] * 3 for _ in range(3)]
        return None

    ev = symnp.Evaluator(env, where=f"{CELLS_}::get_cell_matrix", call_hook=hook)
    ret = None
    for st in fn.body:
        if isinstance(st, ast.Expr) and isinstance(st.value, ast.Constant):
            continue
        if isinstance(st, ast.If):
            continue  # degree -> radian conversion of the arguments: the identities are stated for radians
        if isinstance(st, ast.Assign) and len(st.targets) == 1:
            t = st.targets[0]
            v = ev.ev(st.value)
            if isinstance(t, ast.Name):
                ev.env[t.id] = v
            elif isinstance(t, ast.Tuple) and isinstance(v, list) and len(v) == len(t.elts):
                for nm, x in zip(t.elts, v):
                    ev.env[nm.id] = x
            elif isinstance(t, ast.Subscript) and isinstance(t.value, ast.Name) and isinstance(ev.env.get(t.value.id), list):
                L = ev.env[t.value.id]
                ix = t.slice
                if isinstance(ix, ast.Constant) and isinstance(v, list):
                    L[ix.value] = list(v)
                elif isinstance(ix, ast.Tuple) and all(isinstance(x, ast.Constant) for x in ix.elts) and not isinstance(v, list):
                    L[ix.elts[0].value] = list(L[ix.elts[0].value])
                    L[ix.elts[0].value][ix.elts[1].value] = v
                else:
                    raise AnalysisError(f"get_cell_matrix: store '{core.src(st)}' outside the modelled fragment")
            else:
                raise AnalysisError(f"get_cell_matrix: statement '{core.norm(core.src(st), 50)}' outside the modelled fragment")
        elif isinstance(st, ast.Return):
            ret = ev.ev(st.value)
        else:
            raise AnalysisError(f"get_cell_matrix: statement '{core.norm(core.src(st), 50)}' outside the modelled fragment")
    if symnp.shape(ret) != (3, 3):
        raise AnalysisError("get_cell_matrix does not return a 3x3 array")
    G = [[sum(ret[i][k] * ret[j][k] for k in range(3)) for j in range(3)] for i in range(3)]
    want = {(0, 0): A**2, (1, 1): B**2, (2, 2): C_**2, (0, 1): A * B * sp.cos(ga), (0, 2): A * C_ * sp.cos(be), (1, 2): B * C_ * sp.cos(al)}
    names = {(0, 0): "|a_1|^2 = a^2", (1, 1): "|a_2|^2 = b^2", (2, 2): "|a_3|^2 = c^2", (0, 1): "a_1.a_2 = a b cos(gamma)", (0, 2): "a_1.a_3 = a c cos(beta)", (1, 2): "a_2.a_3 = b c cos(alpha)"}
    for k, w in want.items():
        d = sp.simplify(sp.trigsimp(sp.expand(G[k[0]][k[1]] - w)))
        rep.instance("R17k", CELLS_, "get_cell_matrix", names[k], d == 0,
                     f"the lattice built from (a, b, c, alpha, beta, gamma) has {names[k].split('=')[0].strip()} = {sp.simplify(G[k[0]][k[1]])}: it is not a rigid rotation of the cell it was built from (alpha and beta exchanged shows only when they differ: b-unique monoclinic, triclinic), so the structure written for LAMMPS is another crystal and the forces are rotated back by a non-orthogonal matrix", line=fn.lineno)
    upper = [ret[0][1], ret[0][2], ret[1][2]]
    rep.instance("R17k", CELLS_, "get_cell_matrix", "lower-triangular orientation (a along x, b in the xy plane)", all(sp.simplify(x) == 0 for x in upper), "the returned lattice is not lower triangular", line=fn.lineno)



def _r17p(rep):
    """Streaming readers: an early exit from the event loop does not skip a field that is used afterwards."""
    rep.rule("R17p", "streaming parsers (vasprun.xml readers): when the event loop is left early ('stop parsing when we have all the information'), every variable that is filled inside the loop and used after it is either part of the exit test or filled in the same block (same event) as a variable of the exit test; a field filled on a different event may not have been seen yet when the loop stops (the unit of the VASP-6 Hessian, written after the array), and its default is used instead", 1)
    rel = "phonopy/interface/vasp.py"
    tree = core.parse(rel)
    n = 0
    for fn in [x for x in ast.walk(tree) if isinstance(x, ast.FunctionDef)]:
        for lp in [x for x in fn.body if isinstance(x, ast.For)]:
            exits = [st for st in lp.body if isinstance(st, ast.If) and any(isinstance(b, ast.Break) for b in st.body)]
            if not exits:
                continue
            tested = {n_.id for ex in exits for n_ in ast.walk(ex.test) if isinstance(n_, ast.Name)}
            # variables assigned in the loop, by innermost enclosing block of the loop body
            blocks = []  # (set of names assigned in this block statement list)

            def collect(stmts):
                here = set()
                for st in stmts:
                    if isinstance(st, (ast.Assign, ast.AugAssign)):
                        for t in (st.targets if isinstance(st, ast.Assign) else [st.target]):
                            for y in ast.walk(t):
                                if isinstance(y, ast.Name) and isinstance(y.ctx, ast.Store):
                                    here.add(y.id)
                    elif isinstance(st, ast.If):
                        # the arms of one if statement are different events: each is a block of its own
                        collect(st.body)
                        collect(st.orelse)
                    elif isinstance(st, (ast.For, ast.While, ast.With, ast.Try)):
                        sub = set()
                        for y in ast.walk(st):
                            if isinstance(y, ast.Name) and isinstance(y.ctx, ast.Store):
                                sub.add(y.id)
                        here |= sub
                if here:
                    blocks.append(here)
                return here

            collect(lp.body)
            # nested ifs inside one arm belong to that arm as well: merge child blocks into the enclosing arm
            def arm_sets(stmts):
                out = []
                for st in stmts:
                    if isinstance(st, ast.If):
                        for arm in (st.body, st.orelse):
                            names = {y.id for x in arm for y in ast.walk(x) if isinstance(y, ast.Name) and isinstance(y.ctx, ast.Store)}
                            if names:
                                out.append(names)
                return out

            arms = arm_sets(lp.body)
            assigned = set().union(*arms) if arms else set()
            top = {y.id for st in lp.body if isinstance(st, (ast.Assign, ast.AugAssign)) for y in ast.walk(st) if isinstance(y, ast.Name) and isinstance(y.ctx, ast.Store)}
            after = [st for st in fn.body if st.lineno > lp.end_lineno]
            used_after = {y.id for st in after for y in ast.walk(st) if isinstance(y, ast.Name) and isinstance(y.ctx, ast.Load)}
            for v in sorted((assigned | top) & used_after):
                if v in tested or v in top:
                    ok = True
                else:
                    ok = any(v in a and (a & tested) for a in arms)
                n += 1
                rep.instance("R17p", rel, core.qualname_of(fn), f"'{v}' is filled inside the event loop and used after it: covered by the exit test {sorted(tested)}", ok,
                             f"'{v}' is filled on another event than the variables of the exit test {sorted(tested)}: when that event comes later in the file the loop has already stopped and the initial value of '{v}' is used (a VASP-6 Hessian in THz^2 is then taken for eV/Angstrom^2: force constants 244 times too large)", line=lp.lineno)
    if n < 1:
        raise AnalysisError("R17p: no streaming reader with an early exit found in phonopy/interface/vasp.py")


def _r17n(rep):
    """Writers with a species header and per-atom type indices: the indices are positions in the list that is written."""
    rep.rule("R17n", "structure writers that emit a species list and, per atom, an index into it (DFTB+ gen, ABINIT typat / znucl): the list in which each atom's index is looked up (X.index(v), the unique values of np.unique(..., return_inverse=True)) is the very list written as the header, so that the reader -- which resolves index k to the k-th header entry -- recovers the species of every atom whatever the order of first appearance", 2)
    for rel, fname in (("phonopy/interface/dftbp.py", "write_dftbp"), ("phonopy/interface/abinit.py", "get_abinit_structure")):
        fn = core.find_def(rel, fname)
        # names that reach the output text: arguments of str.join, operands of '%' formatting, f-string parts,
        # iterables of loops whose body extends the text
        written = set()
        for x in ast.walk(fn):
            if isinstance(x, ast.Call) and isinstance(x.func, ast.Attribute) and x.func.attr == "join":
                written |= {n_.id for a in x.args for n_ in ast.walk(a) if isinstance(n_, ast.Name)}
            if isinstance(x, ast.BinOp) and isinstance(x.op, ast.Mod):
                written |= {n_.id for n_ in ast.walk(x.right) if isinstance(n_, ast.Name)}
            if isinstance(x, ast.JoinedStr):
                written |= {n_.id for n_ in ast.walk(x) if isinstance(n_, ast.Name)}
            if isinstance(x, ast.Call) and isinstance(x.func, ast.Attribute) and x.func.attr == "format":
                written |= {n_.id for a in x.args for n_ in ast.walk(a) if isinstance(n_, ast.Name)}
            if isinstance(x, ast.For) and any(isinstance(y, ast.AugAssign) or (isinstance(y, ast.Call) and isinstance(y.func, ast.Attribute) and y.func.attr == "append") for y in ast.walk(x)):
                written |= {n_.id for n_ in ast.walk(x.iter) if isinstance(n_, ast.Name)}
        lookups = []  # (node, name of the list the index refers to)
        for x in ast.walk(fn):
            if isinstance(x, ast.Call) and isinstance(x.func, ast.Attribute) and x.func.attr == "index" and len(x.args) == 1 and core.src(x.func.value) not in ("np", "numpy"):
                lookups.append((x, x.func.value.id if isinstance(x.func.value, ast.Name) else core.norm(core.src(x.func.value), 40)))
            if isinstance(x, ast.Assign) and isinstance(x.value, ast.Call) and core.src(x.value.func) == "np.unique" and any(k.arg == "return_inverse" for k in x.value.keywords) and isinstance(x.targets[0], ast.Tuple) and x.targets[0].elts:
                first = x.targets[0].elts[0]
                lookups.append((x, first.id if isinstance(first, ast.Name) else "<discarded>"))
        if not lookups:
            raise AnalysisError(f"R17n: {fname}: no per-atom species index found (X.index(v) or np.unique(..., return_inverse=True))")
        for node, lst in lookups:
            ok = lst in written and lst != "_"
            rep.instance("R17n", rel, fname, f"{core.norm(core.src(node), 70)} : index into '{lst}', which is written as the header", ok,
                         f"the per-atom species index of '{core.norm(core.src(node), 60)}' is a position in '{lst}', which is not the species list written to the file ({sorted(written & {n_.id for n_ in ast.walk(fn) if isinstance(n_, ast.Name)})[:6]} are written): when the two lists are ordered differently (first appearance vs alphabetical) the reader assigns the wrong element to the atoms", line=node.lineno)


def _r17m(rep):
    """Per-vector scale factors of the input formats that have them, decided entry by entry on symbols."""
    import sympy as sp

    from engine import symnp

    rep.rule("R17m", "lattice assembly of readers with per-vector scale factors (symbolic evaluation of the statements that build cell=): Elk -- lattice vector i is scale_i * avec_i (scale1/2/3 of the Elk manual scale the first/second/third lattice vector); ABINIT -- primitive vector i is acell_i * rprim_i with Cartesian component j multiplied by scalecart_j; a product that pairs the factors with the other axis keeps the volume and changes lengths and angles whenever the factors differ and the matrix is not diagonal", 2)
    A = symnp.matrix("a", 3, 3)
    sc = symnp.vector("s", 3)
    cart = symnp.vector("c", 3)
    cases = [
        ("phonopy/interface/elk.py", "read_elk", {"tags['avec']": A, "tags['scale']": sc}, [[sc[i] * A[i][j] for j in range(3)] for i in range(3)], "scale_i * avec_i"),
        ("phonopy/interface/abinit.py", "read_abinit", {"tags['rprim']": A, "tags['acell']": sc, "tags['scalecart']": cart}, [[sc[i] * cart[j] * A[i][j] for j in range(3)] for i in range(3)], "acell_i * scalecart_j * rprim_i[j]"),
    ]
    for rel, fname, env, want, text in cases:
        fn = core.find_def(rel, fname)
        ctor = [c for c in ast.walk(fn) if isinstance(c, ast.Call) and core.src(c.func) == "PhonopyAtoms"]
        cellkw = [k.value for c in ctor for k in c.keywords if k.arg == "cell"]
        if len(cellkw) != 1:
            raise AnalysisError(f"R17m: {fname} no longer builds one PhonopyAtoms(cell=...)")
        stmts = symnp.backward_slice(fn.body, cellkw[0], opaque=("tags", "np"))
        evl = symnp.Evaluator(env, where=fname)
        symnp.run_block(evl, stmts)
        got = evl.ev(cellkw[0])
        ok = symnp.shape(got) == (3, 3) and all(sp.expand(got[i][j] - want[i][j]) == 0 for i in range(3) for j in range(3))
        bad = next(((i, j) for i in range(3) for j in range(3) if symnp.shape(got) == (3, 3) and sp.expand(got[i][j] - want[i][j]) != 0), None)
        rep.instance("R17m", rel, fname, f"cell[i][j] = {text} ({len(stmts)} statements evaluated)", ok,
                     f"component {bad} of the lattice handed to PhonopyAtoms is {got[bad[0]][bad[1]] if bad else symnp.shape(got)}, not {want[bad[0]][bad[1]] if bad else ''}: the scale factors are paired with the Cartesian columns instead of the lattice vectors (or the reverse)", line=fn.lineno)


def _r17l(rep):
    """SIESTA species table: the index a label maps to and the index the atomic numbers are keyed by are the same column."""
    SI = "phonopy/interface/siesta.py"
    rep.rule("R17l", "SIESTA ChemicalSpeciesLabel block: both tables built from it use the declared species index (first column): atomic numbers are keyed by it and labels map to it, so that atomicnumbers[label map[label]] is the element of that label whatever the order of the lines; a line counter is not the declared index", 2)
    fn = core.find_def(SI, "SiestaIn._collect")

    def prov(e, env, depth=0):
        """('col', k): column k of a split line; ('enum',): position of the line; None: cannot tell"""
        if depth > 8:
            return None
        if isinstance(e, ast.Call) and core.src(e.func) in ("int", "float", "str") and e.args:
            return prov(e.args[0], env, depth + 1)
        if isinstance(e, ast.Name):
            return env.get(e.id)
        if isinstance(e, ast.Subscript) and isinstance(e.slice, ast.Constant) and isinstance(e.slice.value, int):
            b = prov(e.value, env, depth + 1)
            if b == ("line",):
                return ("col", e.slice.value)
            if isinstance(b, tuple) and b and b[0] == "cols":
                return ("col", b[1] + e.slice.value)
            return None
        if isinstance(e, ast.Subscript) and isinstance(e.slice, ast.Slice):
            b = prov(e.value, env, depth + 1)
            lo = e.slice.lower.value if isinstance(e.slice.lower, ast.Constant) else 0
            return ("cols", lo) if b == ("line",) else None
        if isinstance(e, ast.Call) and isinstance(e.func, ast.Attribute) and e.func.attr == "split":
            b = prov(e.func.value, env, depth + 1)
            return ("line",) if b in (("raw",), ("line",)) else None
        return None

    def pairs(v, env):
        """(key provenance, value provenance) of a dict construction over the lines of the block"""
        if isinstance(v, ast.DictComp) and len(v.generators) == 1:
            g = v.generators[0]
            env2 = dict(env)
            it = g.iter
            if isinstance(it, ast.Call) and core.src(it.func) == "enumerate" and isinstance(g.target, ast.Tuple) and len(g.target.elts) == 2:
                env2[g.target.elts[0].id] = ("enum",)
                env2[g.target.elts[1].id] = elem_of(it.args[0], env)
            elif isinstance(g.target, ast.Name):
                env2[g.target.id] = elem_of(it, env)
            return prov(v.key, env2), prov(v.value, env2)
        if isinstance(v, ast.Call) and core.src(v.func) == "dict" and v.args and isinstance(v.args[0], ast.ListComp) and len(v.args[0].generators) == 1:
            lc = v.args[0]
            g = lc.generators[0]
            env2 = dict(env)
            if isinstance(g.target, ast.Name):
                env2[g.target.id] = elem_of(g.iter, env)
            el = lc.elt
            if isinstance(el, ast.Call) and isinstance(el.func, ast.Lambda) and len(el.args) == 1 and len(el.func.args.args) == 1:
                env2[el.func.args.args[0].arg] = prov(el.args[0], env2)
                el = el.func.body
            if isinstance(el, ast.Tuple) and len(el.elts) == 2:
                return prov(el.elts[0], env2), prov(el.elts[1], env2)
            if isinstance(el, ast.Call) and core.src(el.func) == "map" and len(el.args) == 2:
                b = prov(el.args[1], env2)
                if isinstance(b, tuple) and b[0] == "cols":
                    return ("col", b[1]), ("col", b[1] + 1)
        return None, None

    def elem_of(it, env):
        """what one element of the iterated sequence is"""
        if isinstance(it, ast.Name):
            d = env.get(it.id)
            return {("rawlines",): ("raw",), ("lines",): ("line",)}.get(d)
        return None

    found = {}
    for node in ast.walk(fn):
        if isinstance(node, ast.If) and "chemicalspecieslabel" in core.src(node.test):
            env = {}
            for st in node.body:
                if not isinstance(st, ast.Assign) or len(st.targets) != 1:
                    continue
                t, v = st.targets[0], st.value
                if isinstance(t, ast.Name):
                    txt = core.src(v).replace(" ", "")
                    if isinstance(v, ast.ListComp) and ".split()" in txt and "split(" in txt:
                        env[t.id] = ("lines",)  # [line.split() for line in block.split('\n')...]
                    elif ".split(" in txt:
                        env[t.id] = ("rawlines",)
                elif isinstance(t, ast.Subscript):
                    key = core.src(t.slice).strip("'\"")
                    found["atomicnumbers" if key == "atomicnumbers" else "labels"] = (pairs(v, env), st)
    if set(found) != {"atomicnumbers", "labels"}:
        raise AnalysisError(f"SiestaIn._collect: the two tables of the ChemicalSpeciesLabel block were not both found ({sorted(found)})")
    (ak, av), a_st = found["atomicnumbers"]
    (lk, lv), l_st = found["labels"]
    if None in (ak, av, lk, lv):
        raise AnalysisError(f"SiestaIn._collect: cannot tell which columns the species tables are built from ({ak}, {av}, {lk}, {lv})")
    rep.instance("R17l", SI, "SiestaIn._collect", f"atomic numbers: key {ak} -> value {av}", ak == ("col", 0) and av == ("col", 1), "the atomic numbers are not keyed by the declared species index (column 1) with the atomic number (column 2) as value", line=a_st.lineno)
    rep.instance("R17l", SI, "SiestaIn._collect", f"labels: key {lk} -> value {lv}", lk == ("col", 2) and lv == ak,
                 f"a species label maps to {lv} while the atomic numbers are keyed by {ak}: when the lines of the block are not listed in index order (SIESTA allows '2 8 O' before '1 14 Si') every file phonopy writes carries species numbers that mean the other element", line=l_st.lineno)


def selftest():
    V = []
    b = lambda name, file, old, new, rule, expect="", **kw: V.append(dict(name=name, kind="break", file=file, old=old, new=new, rule=rule, expect=expect, **kw))
    n = lambda name, file, old, new, **kw: V.append(dict(name=name, kind="neutral", file=file, old=old, new=new, **kw))
    b("CRYSTAL conventional numbers tiled instead of repeated per atom", "phonopy/interface/crystal.py", "    convnum_super = []\n    for i in conv_numbers:\n        for _ in range(num_unitcells_in_supercell):\n            convnum_super.append(i)\n", "    convnum_super = [i for _ in range(num_unitcells_in_supercell) for i in conv_numbers]\n", "R17t", "write_supercells_with_displacements")
    n("CRYSTAL conventional numbers repeated per atom by a comprehension", "phonopy/interface/crystal.py", "    convnum_super = []\n    for i in conv_numbers:\n        for _ in range(num_unitcells_in_supercell):\n            convnum_super.append(i)\n", "    convnum_super = [i for i in conv_numbers for _ in range(num_unitcells_in_supercell)]\n")
    b("structure conversion rescales the Cartesian positions after the lattice", CALC, "    cell.cell = cell.cell * factor\n", "    cell.cell = cell.cell * factor\n    cell.positions = cell.positions * factor\n", "R17s", "convert_crystal_structure")
    n("structure conversion rescales through a local lattice", CALC, "    cell.cell = cell.cell * factor\n", "    lattice = cell.cell\n    cell.cell = lattice * factor\n")
    b("conversion divides by the table entry of the file's unit", CALC, "        factor = factor_to_eVperA2[_unit] / factor_to_eVperA2[default_unit]", "        factor = factor_to_eVperA2[default_unit] / factor_to_eVperA2[_unit]", "R17r", "get_force_constant_conversion_factor")
    n("conversion written as a product with the reciprocal", CALC, "        factor = factor_to_eVperA2[_unit] / factor_to_eVperA2[default_unit]", "        factor = factor_to_eVperA2[_unit] * (1.0 / factor_to_eVperA2[default_unit])")
    b("SIESTA reader writes parsed tags into the class-level dictionary", "phonopy/interface/siesta.py", "        self._tags = self._tags.copy()\n", "", "R17o", "SiestaIn")
    b("DFTB+ type indices from the sorted unique symbols", "phonopy/interface/dftbp.py", "    atom_numbers = []\n    for ss in expaned_symbols:\n        atom_numbers.append(symbols.index(ss) + 1)\n", "    _, atom_numbers = np.unique(expaned_symbols, return_inverse=True)\n    atom_numbers = atom_numbers + 1\n", "R17n", "write_dftbp")
    b("ABINIT typat looked up in the sorted numbers", "phonopy/interface/abinit.py", "        typat.append(znucl.index(n) + 1)", "        typat.append(sorted(znucl).index(n) + 1)", "R17n", "get_abinit_structure")
    b("Elk per-vector scales applied to the Cartesian columns", "phonopy/interface/elk.py", "    avec = [tags[\"scale\"][i] * np.array(tags[\"avec\"][i]) for i in range(3)]\n", "    avec = np.array(tags[\"avec\"], dtype=\"double\") * tags[\"scale\"]\n", "R17m", "read_elk")
    n("Elk per-vector scales by a column of factors", "phonopy/interface/elk.py", "    avec = [tags[\"scale\"][i] * np.array(tags[\"avec\"][i]) for i in range(3)]\n", "    avec = np.array(tags[\"avec\"], dtype=\"double\") * np.array(tags[\"scale\"])[:, None]\n")
    b("ABINIT acell applied to the Cartesian rows", "phonopy/interface/abinit.py", "    rprim = tags[\"rprim\"].T\n", "    rprim = tags[\"rprim\"]\n", "R17m", "read_abinit")
    b("qe force conversion inverted", CALC, 'units["force_to_eVperA"] = Rydberg / Bohr\n        units["force_constants_unit"] = "Ry/au^2"', 'units["force_to_eVperA"] = Rydberg * Bohr\n        units["force_constants_unit"] = "Ry/au^2"', "R17b", "qe")
    b("abinit nac factor of the wrong unit system", CALC, 'units["factor"] = AbinitToTHz\n        units["nac_factor"] = Hartree / Bohr', 'units["factor"] = AbinitToTHz\n        units["nac_factor"] = Hartree * Bohr', "R17b", "abinit")
    b("wien2k unit string says Ry", CALC, 'units["force_constants_unit"] = "mRy/au^2"', 'units["force_constants_unit"] = "Ry/au^2"', "R17b", "wien2k")
    b("siesta gets the elk factor", CALC, 'units["factor"] = SiestaToTHz', 'units["factor"] = ElkToTHz', "R17b", "siesta")
    b("conversion table entry for mRy", CALC, '"mRy/au^2": Rydberg / Bohr**2 / 1000,', '"mRy/au^2": Rydberg / Bohr**2 / 100,', "R17b", "mRy")
    b("pwmat branch dropped from cell filename", CALC, '    elif interface_mode == "pwmat":\n        return "atom.config"', '    elif interface_mode == "pwmat_":\n        return "atom.config"', "R17a", "pwmat")
    b("writer called with a missing argument", CALC, "qe.write_pwscf(filename, cell, pp_filenames)", "qe.write_pwscf(filename, cell)", "R17a", "write_pwscf")
    b("elk writer pairs sorted positions with original symbols", "phonopy/interface/elk.py", "        spfnames = [s + \".in\" for s in symbols]", "        spfnames = [s + \".in\" for s in symbols]\n    for i in range(len(scaled_positions)):\n        _ = (cell.symbols[i], scaled_positions[i])", "R17c", "get_elk_structure")
    VSP = "phonopy/interface/vasp.py"
    b("grouping key through argsort instead of rank", VSP, "    sort_keys = [reduced_symbols.index(i) for i in symbols]", "    _, first_ids, inverse = np.unique(symbols, return_index=True, return_inverse=True)\n    sort_keys = np.argsort(first_ids)[inverse].tolist()", "R17h", "sort_positions_by_symbols")
    n("grouping key through the rank (double argsort)", VSP, "    sort_keys = [reduced_symbols.index(i) for i in symbols]", "    _, first_ids, inverse = np.unique(symbols, return_index=True, return_inverse=True)\n    sort_keys = np.argsort(np.argsort(first_ids))[inverse].tolist()")
    n("grouping key through a lookup table", VSP, "    sort_keys = [reduced_symbols.index(i) for i in symbols]", "    rank = {s: k for k, s in enumerate(reduced_symbols)}\n    sort_keys = [rank[i] for i in symbols]")
    b("positions grouped by sorted species order", VSP, "    sort_keys = [reduced_symbols.index(i) for i in symbols]", "    _, inverse = np.unique(symbols, return_inverse=True)\n    sort_keys = inverse.tolist()", "R17h", "grouped")
    LMP = "phonopy/interface/lammps.py"
    b("lammps forces kept in file order", LMP, "            forces[atom_id - 1] = np.array(ary[column_start:column_end], dtype=\"double\")", "            forces[i] = np.array(ary[column_start:column_end], dtype=\"double\")", "R17g", "atom-id order")
    b("lammps id completeness check dropped", LMP, "        assert all(indices_found)\n", "", "R17g", "refused")
    n("lammps forces scattered after the loop", LMP, '        forces = np.zeros((num_atoms, 3), dtype="double")\n        indices_found = [False] * num_atoms\n        for i, line in enumerate(fp):\n            if i == num_atoms:\n                break\n            ary = line.split()\n            atom_id = int(ary[0])\n            indices_found[atom_id - 1] = True\n            forces[atom_id - 1] = np.array(ary[column_start:column_end], dtype="double")\n\n        assert all(indices_found)\n        self._forces = forces\n', '        ids = np.zeros(num_atoms, dtype="int64")\n        rows = np.zeros((num_atoms, 3), dtype="double")\n        for i, line in enumerate(fp):\n            if i == num_atoms:\n                break\n            ary = line.split()\n            ids[i] = int(ary[0])\n            rows[i] = [float(v) for v in ary[column_start:column_end]]\n        assert (np.sort(ids) == np.arange(1, num_atoms + 1)).all()\n        forces = np.zeros_like(rows)\n        forces[ids - 1] = rows\n        self._forces = forces\n')
    n("lammps forces gathered through argsort", LMP, '        forces = np.zeros((num_atoms, 3), dtype="double")\n        indices_found = [False] * num_atoms\n        for i, line in enumerate(fp):\n            if i == num_atoms:\n                break\n            ary = line.split()\n            atom_id = int(ary[0])\n            indices_found[atom_id - 1] = True\n            forces[atom_id - 1] = np.array(ary[column_start:column_end], dtype="double")\n\n        assert all(indices_found)\n        self._forces = forces\n', '        ids = np.zeros(num_atoms, dtype="int64")\n        rows = np.zeros((num_atoms, 3), dtype="double")\n        for i, line in enumerate(fp):\n            if i == num_atoms:\n                break\n            ary = line.split()\n            ids[i] = int(ary[0])\n            rows[i] = [float(v) for v in ary[column_start:column_end]]\n        assert (np.sort(ids) == np.arange(1, num_atoms + 1)).all()\n        self._forces = np.array(rows[np.argsort(ids)], dtype="double", order="C")\n')
    b("lammps forces gathered through the ids", LMP, '        forces = np.zeros((num_atoms, 3), dtype="double")\n        indices_found = [False] * num_atoms\n        for i, line in enumerate(fp):\n            if i == num_atoms:\n                break\n            ary = line.split()\n            atom_id = int(ary[0])\n            indices_found[atom_id - 1] = True\n            forces[atom_id - 1] = np.array(ary[column_start:column_end], dtype="double")\n\n        assert all(indices_found)\n        self._forces = forces\n', '        ids = np.zeros(num_atoms, dtype="int64")\n        rows = np.zeros((num_atoms, 3), dtype="double")\n        for i, line in enumerate(fp):\n            if i == num_atoms:\n                break\n            ary = line.split()\n            ids[i] = int(ary[0])\n            rows[i] = [float(v) for v in ary[column_start:column_end]]\n        assert (np.sort(ids) == np.arange(1, num_atoms + 1)).all()\n        self._forces = np.array(rows[ids - 1], dtype="double", order="C")\n', "R17g", "rows[ids - 1]")
    b("fleur unpack regression", CALC, "        speci = optional_structure_info[1]\n        restlines = optional_structure_info[2]\n        fleur.write_fleur(filename, cell, speci, 1, restlines)", "        speci, restlines = optional_structure_info\n        fleur.write_fleur(filename, cell, speci, 1, restlines)", "R17f", "fleur")
    n("constant through a local alias", CALC, 'units["factor"] = PwscfToTHz', 'units["factor"] = PwscfToTHz * 1.0')
    b("wien2k forces addressed through a table over phonopy's independent atoms", "phonopy/interface/wien2k.py", "        force_set = []\n        for i in range(natom):\n            j = indep_atoms_to_wien2k.index(map_atoms[i])", "        force_set = []\n        indep_index = {a: k for k, a in enumerate(independent_atoms)}\n        for i in range(natom):\n            j = indep_index[map_atoms[i]]", "R17i", "forces_remap")
    n("wien2k lookup through a table over the list kept next to the forces", "phonopy/interface/wien2k.py", "        force_set = []\n        for i in range(natom):\n            j = indep_atoms_to_wien2k.index(map_atoms[i])", "        force_set = []\n        where = {a: k for k, a in enumerate(indep_atoms_to_wien2k)}\n        for i in range(natom):\n            j = where[map_atoms[i]]")
    b("abinit writer normalises the lattice column-wise", "phonopy/interface/abinit.py", '    lines += ((" % 20.16f" * 3 + "\\n") * 3) % tuple(cell.cell.ravel())', '    lat = cell.cell\n    lines += ((" % 20.16f" * 3 + "\\n") * 3) % tuple((lat / np.linalg.norm(lat, axis=1)).ravel())', "R17j", "axis=1")
    n("abinit writer normalises the lattice row-wise", "phonopy/interface/abinit.py", '    lines += ((" % 20.16f" * 3 + "\\n") * 3) % tuple(cell.cell.ravel())', '    lat = cell.cell\n    lines += ((" % 20.16f" * 3 + "\\n") * 3) % tuple((lat / np.linalg.norm(lat, axis=1, keepdims=True) * np.linalg.norm(lat, axis=1, keepdims=True)).ravel())')
    b("cell from lengths and angles with alpha and beta exchanged", "phonopy/structure/cells.py", "    c2 = (2 * np.cos(alpha) + b1**2 + b2**2 - 2 * b1 * c1 - 1) / (2 * b2)", "    c2 = (np.cos(beta) - np.cos(alpha) * b1) / b2", "R17k", "a_2.a_3")
    n("cell from lengths and angles in textbook form", "phonopy/structure/cells.py", "    c2 = (2 * np.cos(alpha) + b1**2 + b2**2 - 2 * b1 * c1 - 1) / (2 * b2)", "    c2 = (np.cos(alpha) - c1 * b1) / b2")
    return V
