"""Shared rule (C02 R02g, C03 R03e, C04 R04f): a float matrix that is integer-valued only up to rounding error is rounded
before it becomes an integer array.

Every conversion to an integer dtype (`x.astype(<int>)`, `np.array(x, dtype=<int>)`) in the lattice / supercell /
primitive-cell / dynamical-matrix modules is classified by a small def-use analysis inside its function: the operand
(wrappers `np.array`, `.astype`, `.reshape`, `.T`, `.copy()` peeled, local names assigned once inlined) is
  rounded  - a call of np.rint / np.round / np.around / np.floor / np.ceil / round,
  float    - an expression that contains a matrix inverse, a true division, a float literal, a norm/sqrt/det outside any
             rounding call: the conversion truncates toward zero, so 4.999999999999999 becomes 4,
  unknown  - anything else (integer data as far as this analysis can tell): no instance, no report.
Instances are the rounded and the float sites; float sites are reports.  The change-of-basis matrix that turns the
shortest vectors into primitive coordinates (supercell_bases . inv(primitive_bases)) is such a product: with a truncated
entry the vectors handed to the Fourier sum are no longer position differences modulo supercell lattice vectors.
"""

from __future__ import annotations

import ast

from engine import core

INT = {"int", "'int64'", "'intc'", "'int_'", "np.int64", "np.intc", "'int32'", "'long'", "'intp'", "np.int_"}
ROUND = {"np.rint", "np.round", "np.around", "np.floor", "np.ceil", "round", "numpy.rint", "np.round_"}
FLOATCALL = {"np.linalg.inv", "np.linalg.solve", "np.sqrt", "np.linalg.norm", "np.linalg.det", "np.mean", "np.average", "np.linalg.pinv", "np.linalg.lstsq"}
SCOPE = ["phonopy/structure/cells.py", "phonopy/structure/grid_points.py", "phonopy/structure/symmetry.py", "phonopy/structure/snf.py", "phonopy/harmonic/dynamical_matrix.py", "phonopy/harmonic/dynmat_to_fc.py", "phonopy/harmonic/force_constants.py", "phonopy/harmonic/derivative_dynmat.py", "phonopy/structure/brillouin_zone.py"]


def _int_dtype(node) -> bool:
    return core.src(node).replace('"', "'") in INT


def _assigned_once(fn) -> dict:
    d: dict = {}
    for n in ast.walk(fn):
        if isinstance(n, ast.Assign) and len(n.targets) == 1 and isinstance(n.targets[0], ast.Name):
            d.setdefault(n.targets[0].id, []).append(n.value)
        elif isinstance(n, (ast.AugAssign, ast.For, ast.comprehension)):
            t = n.target
            for x in ast.walk(t):
                if isinstance(x, ast.Name):
                    d.setdefault(x.id, []).extend([None, None])
    return {k: v[0] for k, v in d.items() if len(v) == 1}


def _floaty(x, env, depth=0):
    """the float indicator found outside any rounding call, or None"""
    if isinstance(x, ast.Call) and core.src(x.func) in ROUND:
        return None
    if isinstance(x, ast.Call) and core.src(x.func) in FLOATCALL:
        return core.src(x.func)
    if isinstance(x, ast.BinOp) and isinstance(x.op, ast.Div):
        return "true division"
    if isinstance(x, ast.Constant) and isinstance(x.value, float):
        return f"float literal {x.value!r}"
    if isinstance(x, ast.Name) and x.id in env and depth < 3:
        return _floaty(env[x.id], env, depth + 1)
    # values that are integers / booleans whatever they are computed from: comparisons, positions of extrema and
    # matches; an element of an array has the array's type, not that of the index expression
    if isinstance(x, (ast.Compare, ast.BoolOp)):
        return None
    if isinstance(x, ast.Call) and ((isinstance(x.func, ast.Attribute) and x.func.attr in ("argmax", "argmin", "argsort", "nonzero", "searchsorted")) or core.src(x.func) in ("np.where", "np.argmax", "np.argmin", "np.argsort", "np.nonzero", "np.searchsorted", "len", "int")):
        return None
    if isinstance(x, ast.Subscript):
        return _floaty(x.value, env, depth)
    for ch in ast.iter_child_nodes(x):
        r = _floaty(ch, env, depth)
        if r:
            return r
    return None


def classify(e, env, depth=0):
    while True:
        if isinstance(e, ast.Call) and isinstance(e.func, ast.Attribute) and e.func.attr in ("astype", "reshape", "copy", "ravel", "flatten"):
            e = e.func.value
        elif isinstance(e, ast.Attribute) and e.attr == "T":
            e = e.value
        elif isinstance(e, ast.Call) and core.src(e.func) in ("np.array", "np.asarray", "np.ascontiguousarray") and e.args:
            e = e.args[0]
        else:
            break
    if isinstance(e, ast.Call) and core.src(e.func) in ROUND:
        return "rounded", None
    if isinstance(e, ast.Name) and e.id in env and depth < 4:
        return classify(env[e.id], env, depth + 1)
    f = _floaty(e, env)
    return ("float", f) if f else ("unknown", None)


def _peeled(e, env, depth=0):
    while True:
        if isinstance(e, ast.Call) and isinstance(e.func, ast.Attribute) and e.func.attr in ("astype", "reshape", "copy", "ravel", "flatten"):
            e = e.func.value
        elif isinstance(e, ast.Attribute) and e.attr == "T":
            e = e.value
        elif isinstance(e, ast.Call) and core.src(e.func) in ("np.array", "np.asarray", "np.ascontiguousarray") and e.args:
            e = e.args[0]
        elif isinstance(e, ast.Name) and e.id in env and depth < 4:
            e, depth = env[e.id], depth + 1
        else:
            return e


def truncating_parameters():
    """{function name: [(parameter position, parameter name, line)]}: parameters that reach an integer conversion without
    a rounding call inside the function, so that the caller is responsible for handing over integers"""
    out: dict = {}
    for rel in SCOPE:
        tree = core.parse(rel)
        for fn in [n for n in ast.walk(tree) if isinstance(n, ast.FunctionDef)]:
            params = [a.arg for a in fn.args.args]
            env = _assigned_once(fn)
            for n in ast.walk(fn):
                op = None
                if isinstance(n, ast.Call) and isinstance(n.func, ast.Attribute) and n.func.attr == "astype" and n.args and _int_dtype(n.args[0]):
                    op = n.func.value
                elif isinstance(n, ast.Call) and core.src(n.func) in ("np.array", "np.asarray") and n.args and any(k.arg == "dtype" and _int_dtype(k.value) for k in n.keywords):
                    op = n.args[0]
                if op is None:
                    continue
                root = _peeled(op, env)
                if isinstance(root, ast.Name) and root.id in params and root.id != "self":
                    out.setdefault(fn.name, []).append((params.index(root.id) - (1 if params and params[0] == "self" else 0), root.id, rel, n.lineno))
    return out


def run(rep: core.Report, rid: str, floor: int = 6):
    rep.rule(rid, "a float matrix that is integer only up to rounding error (change of basis through a matrix inverse, quotient) is rounded before it is converted to an integer dtype; a bare astype(int) / dtype=int truncates toward zero", floor)
    for rel in SCOPE:
        tree = core.parse(rel)
        for fn in [n for n in ast.walk(tree) if isinstance(n, ast.FunctionDef)]:
            env = _assigned_once(fn)
            for n in ast.walk(fn):
                op = None
                if isinstance(n, ast.Call) and isinstance(n.func, ast.Attribute) and n.func.attr == "astype" and n.args and _int_dtype(n.args[0]):
                    op = n.func.value
                elif isinstance(n, ast.Call) and core.src(n.func) in ("np.array", "np.asarray") and n.args and any(k.arg == "dtype" and _int_dtype(k.value) for k in n.keywords):
                    op = n.args[0]
                if op is None:
                    continue
                kind, why = classify(op, env)
                if kind == "unknown":
                    continue
                rep.instance(rid, rel, core.qualname_of(fn), core.norm(core.src(n), 100), kind == "rounded",
                             f"the operand is a float expression ({why}) converted to an integer dtype without rounding: an entry that is an integer up to rounding error (4.999999999999999) is truncated to the integer below, and the change of basis / index built from it is wrong for those lattices", line=n.lineno)
    run_calls(rep, rid)


def run_int_calls(rep: core.Report, rid: str, scope: list[str], floor: int = 0):
    """`int(x)` of a determinant, an inverse, a norm or a square root: integer only up to rounding error, truncated
    toward zero.  (Quotients are left out: `int(a / b)` is a deliberate floor in this code base.)"""
    rep.rule(rid, "int(x) of a float that is an integer only up to rounding error (np.linalg.det, an inverse, a norm, a square root) goes through a rounding call first: np.linalg.det of diag(2, 2, 2) is 7.999999999999998 and int() makes 7 of it, so one block of atoms is missing from what is written (built-in pair of examples keeps the rule alive)", floor)
    ctrl = ast.parse("def bad(m):\n    return int(abs(np.linalg.det(m)))\ndef good(m):\n    return int(np.rint(abs(np.linalg.det(m))))\n")
    got = {}
    for fn in [n for n in ast.walk(ctrl) if isinstance(n, ast.FunctionDef)]:
        for n in ast.walk(fn):
            if isinstance(n, ast.Call) and core.src(n.func) == "int" and len(n.args) == 1:
                got[fn.name] = classify(n.args[0], {})[0]
    if got != {"bad": "float", "good": "rounded"}:
        raise core.AnalysisError(f"{rid}: the rule no longer classifies its own two examples ({got})")
    for rel in scope:
        tree = core.parse(rel)
        for fn in [n for n in ast.walk(tree) if isinstance(n, ast.FunctionDef)]:
            env = _assigned_once(fn)
            for n in ast.walk(fn):
                if isinstance(n, ast.Call) and core.src(n.func) == "int" and len(n.args) == 1:
                    op = n.args[0]
                    while isinstance(op, ast.Call) and core.src(op.func) in ("abs", "np.abs", "float") and op.args:
                        op = op.args[0]
                    kind, why = classify(op, env)
                    if kind == "unknown" or (kind == "float" and why in ("true division",) or (why or "").startswith("float literal")):
                        continue
                    rep.instance(rid, rel, core.qualname_of(fn), core.norm(core.src(n), 90), kind == "rounded",
                                 f"'{core.norm(core.src(n), 70)}' truncates a float ({why}) that is an integer only up to rounding error: for some integer matrices the value lands just below the integer (7.999999999999998 for diag(2, 2, 2)) and the count is one too small", line=n.lineno)


def run_calls(rep: core.Report, rid: str):
    """Interprocedural half: a function that converts a parameter to an integer dtype without rounding relies on its
    callers; every call site in the scope whose argument is a float expression (inverse, quotient) not wrapped in a
    rounding call is a report."""
    tp = truncating_parameters()
    for rel in SCOPE:
        tree = core.parse(rel)
        for fn in [n for n in ast.walk(tree) if isinstance(n, ast.FunctionDef)]:
            env = _assigned_once(fn)
            for c in ast.walk(fn):
                if not isinstance(c, ast.Call):
                    continue
                name = c.func.attr if isinstance(c.func, ast.Attribute) else (c.func.id if isinstance(c.func, ast.Name) else None)
                for pos, pname, drel, dline in tp.get(name, []):
                    arg = c.args[pos] if 0 <= pos < len(c.args) else next((k.value for k in c.keywords if k.arg == pname), None)
                    if arg is None:
                        continue
                    kind, why = classify(arg, env)
                    if kind == "unknown":
                        continue
                    rep.instance(rid, rel, core.qualname_of(fn), f"{name}({pname}={core.norm(core.src(arg), 50)})", kind == "rounded",
                                 f"{name} converts its parameter '{pname}' to an integer dtype without rounding ({drel}:{dline}); this call hands it a float expression ({why}) that is an integer matrix only up to rounding error: 2.9999999999999996 becomes 2, and the commensurate points / supercell built from it belong to another matrix", line=c.lineno)


def variants(b, n, rid):
    b("change of basis truncated instead of rounded", "phonopy/structure/cells.py", "        trans_mat = np.rint(trans_mat_float).astype(int)\n        assert (np.abs(trans_mat_float - trans_mat) < 1e-8).all()\n        svecs =", "        trans_mat = trans_mat_float.astype(int)\n        assert (np.abs(trans_mat_float - np.rint(trans_mat_float)) < 1e-8).all()\n        svecs =", rid, "_get_smallest_vectors")
