"""C12 — group velocities and Grueneisen parameters: derivative coefficients, finite
differences, resolvable access paths (DESIGN §3 C12)."""

from __future__ import annotations

import ast

import sympy as sp

from engine import core, pyabs, symalg
from engine.core import AnalysisError

GV = "phonopy/phonon/group_velocity.py"
GR = "phonopy/gruneisen/core.py"
SCOPE_ATTR = [GV, GR, "phonopy/gruneisen/mesh.py", "phonopy/gruneisen/band_structure.py", "phonopy/api_gruneisen.py", "phonopy/scripts/phonopy_gruneisen.py", "phonopy/harmonic/derivative_dynmat.py"]


def run(rep: core.Report):
    rep.rule("R12a", "chain rule: with f = factor*sqrt(l), the scaling applied to <e|dD|e> equals df/dl = factor^2/(2f); the finite-difference derivative is (D(q+dq) - D(q-dq)) / (2 |dq|)", 4)
    rep.rule("R12b", "Grueneisen coefficient: gamma = -<e|dD|e> / (dV/V) / (2 l), with dD = D(V+) - D(V-) and the strain dV/V from the supplied volumes", 4)
    rep.rule("R12c", "every attribute/method used on an object constructed from a repository class resolves in that class (documented access paths exist)", 10)

    rep.rule("R12d", "band connection: on every path through the q-point loop on which one per-band result is reordered by band_order, every per-band result stored for that q-point (eigenvalues, eigenvectors, <e|dD|e>, group velocities) is reordered by it", 2)
    _r12d(rep)
    _r12e(rep)
    _r12f(rep)
    _r12g(rep)
    _r12h(rep)
    _r12i(rep)
    _r12j(rep)
    from rules import shared_bcast

    shared_bcast.run(rep, "R12k", [r for r in ["phonopy/phonon/group_velocity.py", "phonopy/gruneisen/core.py", "phonopy/gruneisen/mesh.py", "phonopy/gruneisen/band_structure.py", "phonopy/harmonic/derivative_dynmat.py"] if (core.REPO / r).is_file()])
    # R12a -------------------------------------------------------------
    fn = core.find_def(GV, "GroupVelocity._calculate_group_velocity_at_q")
    lam, fac = sp.Symbol("lam", positive=True), sp.Symbol("factor", positive=True)
    f = fac * sp.sqrt(lam)
    scal = None
    for s in ast.walk(fn):
        if isinstance(s, ast.AugAssign) and isinstance(s.op, ast.Mult) and core.src(s.target).startswith("gv["):
            scal = s
    if scal is None:
        raise AnalysisError("GroupVelocity._calculate_group_velocity_at_q: the scaling 'gv[i, :] *= …' vanished")
    fsym = sp.Symbol("f", positive=True)
    tr = symalg.PyTranslator({"f": fsym}, attr_hook=lambda t: fac if t == "self._factor" else None, where="gv scaling")
    coeff = tr.expr(scal.value, {}).subs(fsym, f)
    ok, how = symalg.is_zero(sp.simplify(coeff - sp.diff(f, lam)))
    rep.instance("R12a", GV, "GroupVelocity._calculate_group_velocity_at_q", f"{core.src(scal)}  ==  d(factor*sqrt(l))/dl * <e|dD|e>", ok,
                 f"the coefficient {coeff} is not df/dl = {sp.diff(f, lam)}: group velocities are scaled wrongly", line=scal.lineno, sample={"coefficient": str(coeff), "dfdl": str(sp.diff(f, lam))})
    # the frequency used in the coefficient is the same conversion as everywhere (positive branch)
    fr = [s for s in ast.walk(fn) if isinstance(s, ast.Assign) and core.src(s.targets[0]) == "freqs"]
    okf = bool(fr) and symalg.same(symalg.open_expr(core.src(fr[0].value)), symalg.open_expr("np.sqrt(abs(eigvals)) * np.sign(eigvals) * self._factor"))[0]
    rep.instance("R12a", GV, "GroupVelocity._calculate_group_velocity_at_q", core.src(fr[0]) if fr else "<vanished>", okf, "the frequency entering the chain rule is not sign(l) sqrt|l| factor", line=fn.lineno)
    # finite difference
    dfn = core.find_def(GV, "_delta_dynamical_matrix")
    # sequential reading: dynmat.run(X); name = dynmat.dynamical_matrix  binds name to the matrix at X
    point = {}
    cur = None
    for st in dfn.body:
        if isinstance(st, ast.Expr) and isinstance(st.value, ast.Call) and core.src(st.value.func).endswith(".run") and st.value.args:
            cur = symalg.open_expr(core.src(st.value.args[0]))
        elif isinstance(st, ast.Assign) and isinstance(st.targets[0], ast.Name) and core.src(st.value).endswith(".dynamical_matrix") and cur is not None:
            point[st.targets[0].id] = cur
    ret = [r.value for r in ast.walk(dfn) if isinstance(r, ast.Return) and r.value is not None]
    ok_fd = False
    shown = "<no return>"
    if len(ret) == 1 and len(point) == 2:
        e = symalg.open_expr(core.src(ret[0]))
        pq, pd = symalg.open_expr(dfn.args.args[0].arg), symalg.open_expr(dfn.args.args[1].arg)
        coef = {}
        for nm, pt in point.items():
            c = sp.expand(e).coeff(sp.Symbol(nm))
            coef[str(sp.simplify(pt - pq))] = c
        shown = f"returns {core.src(ret[0])} with matrices at q + {list(coef)}"
        ok_fd = coef == {str(pd): 1, str(-pd): -1}
    rep.instance("R12a", GV, "_delta_dynamical_matrix", shown, ok_fd, "the finite difference is not D(q + dq) - D(q - dq)", line=dfn.lineno)
    fd = core.find_def(GV, "GroupVelocity._get_dD_FD")
    parents = {c: p_ for p_ in ast.walk(fd) for c in ast.iter_child_nodes(p_)}
    calls = [c for c in ast.walk(fd) if isinstance(c, ast.Call) and core.src(c.func) == "_delta_dynamical_matrix"]
    if len(calls) != 1:
        raise AnalysisError("R12a: expected one call of _delta_dynamical_matrix in GroupVelocity._get_dD_FD")
    top = calls[0]
    while isinstance(parents.get(top), ast.BinOp):
        top = parents[top]
    e = symalg.open_expr(core.src(top))
    ce = symalg.open_expr(core.src(calls[0]))
    ql = symalg.open_expr("self._q_length")
    okd = sp.simplify(e * 2 * ql / ce - 1) == 0
    # the displacement carries the step length exactly once
    dq = calls[0].args[1]
    seen, work, uses = set(), [dq], 0
    while work:
        x = work.pop()
        uses += sum(1 for a_ in ast.walk(x) if isinstance(a_, ast.Attribute) and core.src(a_) == "self._q_length")
        for nm in {n_.id for n_ in ast.walk(x) if isinstance(n_, ast.Name)} - seen:
            seen.add(nm)
            for st in ast.walk(fd):
                if isinstance(st, ast.Assign) and any(isinstance(t, ast.Name) and t.id == nm for t in st.targets):
                    work.append(st.value)
                elif isinstance(st, ast.AugAssign) and isinstance(st.target, ast.Name) and st.target.id == nm:
                    work.append(st.value)
                elif isinstance(st, (ast.For, ast.comprehension)) and nm in {n_.id for n_ in ast.walk(st.target) if isinstance(n_, ast.Name)}:
                    work.append(st.iter)
    rep.instance("R12a", GV, "GroupVelocity._get_dD_FD", f"{core.norm(core.src(top), 80)}; step length enters the displacement {uses} time(s)", okd and uses == 1,
                 "the central difference is not divided by 2|dq| with the step |dq| = q_length along each unit direction", line=fd.lineno)

    # R12b --------------------------------------------------------------
    gfn = core.find_def(GR, "GruneisenBase._set_gruneisen")
    gs = [s for s in ast.walk(gfn) if isinstance(s, ast.Assign) and core.src(s.targets[0]) == "self._gruneisen"]
    if not gs:
        raise AnalysisError("GruneisenBase._set_gruneisen: assignment of self._gruneisen vanished")
    e = symalg.open_expr(core.src(gs[0].value))
    # the local holding <e|dD|e>: the array built from the list that receives the second result of rotate_eigenvectors
    ename = "edDe"
    locals_in_value = sorted({x.id for x in ast.walk(gs[0].value) if isinstance(x, ast.Name)} - {"np"})
    if len(locals_in_value) == 1:
        ename = locals_in_value[0]
    want = symalg.open_expr(f"-{ename} / self._delta_strain / self._eigenvalues / 2")
    rep.instance("R12b", GR, "GruneisenBase._set_gruneisen", core.src(gs[0]), symalg.same(e, want)[0], "gamma is not -<e|dD|e> / (dV/V) / (2 omega^2)", line=gs[0].lineno,
                 sample={"formula": str(e)})
    init = core.find_def(GR, "GruneisenBase.__init__")
    tri = symalg.OpenPyTranslator(where="GruneisenBase.__init__")
    tri.summary(init)
    ds = [v for v in tri.assigned.get("self._delta_strain", []) if "volume" in str(v)]
    okds = False
    if ds:
        v = ds[-1]
        # dV / V with dV = V(plus) - V(minus)
        okds = bool(sp.simplify(v - symalg.open_expr("(dynmat_plus.primitive.volume - dynmat_minus.primitive.volume) / dynmat.primitive.volume")) == 0)
    rep.instance("R12b", GR, "GruneisenBase.__init__", f"delta_strain = {core.norm(str(ds[-1]), 90) if ds else '?'}", okds, "the strain is not (V+ - V-)/V of the three supplied cells", line=init.lineno)
    dd = core.find_def(GR, "GruneisenBase._get_dD")
    # by role: the returned difference is (matrix of the third parameter) - (matrix of the second parameter)
    pa, pb = dd.args.args[2].arg, dd.args.args[3].arg
    ldefs = {core.src(st.targets[0]): core.src(st.value) for st in ast.walk(dd) if isinstance(st, ast.Assign) and isinstance(st.targets[0], ast.Name)}
    rets = [r.value for r in ast.walk(dd) if isinstance(r, ast.Return) and r.value is not None]
    ok_dd = False
    shown = [core.src(r) for r in rets]
    if len(rets) == 1 and isinstance(rets[0], ast.BinOp) and isinstance(rets[0].op, ast.Sub):
        l_, r_ = (ldefs.get(core.src(x), core.src(x)) for x in (rets[0].left, rets[0].right))
        ok_dd = l_ == f"{pb}.dynamical_matrix" and r_ == f"{pa}.dynamical_matrix"
        shown = [f"{l_} - {r_}"]
    rep.instance("R12b", GR, "GruneisenBase._get_dD", f"return {shown}", ok_dd, "dD is not D(second object) - D(first object)", line=dd.lineno)
    call = [c for c in ast.walk(gfn) if isinstance(c, ast.Call) and core.src(c.func) == "self._get_dD"]
    okc = bool(call) and [core.src(a) for a in call[0].args] == ["q", "self._dynmat_minus", "self._dynmat_plus"]
    rep.instance("R12b", GR, "GruneisenBase._set_gruneisen", core.src(call[0]) if call else "<vanished>", okc, "dD is not taken as D(V+) - D(V-) (arguments minus, plus in that order)", line=gfn.lineno)

    # R12c --------------------------------------------------------------
    _attr_resolution(rep, SCOPE_ATTR if rep.tier == "quick" else [f for f in core.python_files("phonopy")], "R12c")


def class_members(idx: pyabs.Index, cls: ast.ClassDef) -> set:
    out = set()
    for k in idx.mro(cls):
        for m in k.body:
            if isinstance(m, (ast.FunctionDef, ast.ClassDef)):
                out.add(m.name)
            elif isinstance(m, ast.Assign):
                for t in m.targets:
                    if isinstance(t, ast.Name):
                        out.add(t.id)
            elif isinstance(m, ast.AnnAssign) and isinstance(m.target, ast.Name):
                out.add(m.target.id)
        for f in ast.walk(k):
            if isinstance(f, ast.Attribute) and isinstance(f.value, ast.Name) and f.value.id == "self" and isinstance(f.ctx, ast.Store):
                out.add(f.attr)
        # unresolvable bases (external classes) => give up
        for b in k.bases:
            bn = b.id if isinstance(b, ast.Name) else (b.attr if isinstance(b, ast.Attribute) else None)
            if bn not in idx.classes and bn not in ("object",):
                out.add("*")
        if any(isinstance(m, ast.FunctionDef) and m.name in ("__getattr__", "__getattribute__") for m in k.body):
            out.add("*")
    return out


def _attr_resolution(rep, files, rule):
    idx = pyabs.Index()
    n = 0
    for rel in files:
        tree = core.parse(rel)
        for fn in [f for f in ast.walk(tree) if isinstance(f, ast.FunctionDef)]:
            bound = {}
            rebound = set()
            for s in ast.walk(fn):
                if isinstance(s, ast.Assign) and len(s.targets) == 1 and isinstance(s.targets[0], ast.Name):
                    nm = s.targets[0].id
                    v = s.value
                    if isinstance(v, ast.Call) and isinstance(v.func, ast.Name) and v.func.id in idx.classes:
                        if nm in bound and bound[nm] is not idx.classes[v.func.id][1]:
                            rebound.add(nm)
                        bound[nm] = idx.classes[v.func.id][1]
                    elif nm in bound:
                        rebound.add(nm)
                elif isinstance(s, (ast.For, ast.With)):
                    for t in ast.walk(s.target if isinstance(s, ast.For) else ast.Tuple(elts=[i.optional_vars for i in s.items if i.optional_vars is not None], ctx=ast.Store())):
                        if isinstance(t, ast.Name):
                            rebound.add(t.id)
            for nm in rebound:
                bound.pop(nm, None)
            if not bound:
                continue
            ext_stores = {}
            for a in ast.walk(fn):
                if isinstance(a, ast.Attribute) and isinstance(a.value, ast.Name) and a.value.id in bound and isinstance(a.ctx, ast.Store):
                    ext_stores.setdefault(a.value.id, set()).add(a.attr)
            for a in ast.walk(fn):
                if isinstance(a, ast.Attribute) and isinstance(a.value, ast.Name) and a.value.id in bound and core.enclosing_function(a) is fn and not isinstance(a.ctx, ast.Store):
                    cls = bound[a.value.id]
                    members = class_members(idx, cls) | ext_stores.get(a.value.id, set())
                    if "*" in members:
                        continue
                    n += 1
                    rep.instance(rule, rel, core.qualname_of(a), f"{a.value.id}.{a.attr}  ({a.value.id} = {cls.name}(…))", a.attr in members,
                                 f"'{a.attr}' is neither a method, property, class attribute nor an instance attribute of {cls.name} (or its bases): AttributeError on this access path", line=a.lineno)
    if n < (10 if len(files) < 20 else 150):
        raise AnalysisError(f"{rule}: only {n} attribute uses on locally constructed repository objects found")


def _r12h(rep):
    """First-order perturbation theory as written: directional derivative, rotation inside degenerate sets,
    expectation values, placement of the results, site-symmetry average."""
    from engine import sites

    rep.rule("R12h", "group velocity assembly: directional derivative sum_j dq_j dD/dq_j per direction; degenerate sets are rotated by the eigenvectors of e^H dD_0 e and the velocities are diag(e'^H dD e').real; results are placed at the positions of the set; the site-symmetry average is sum_R R_cart gv / number of rotations that leave q (in the first zone) invariant", 8)
    G = "GroupVelocity"
    S = [
        (f"{G}._get_dD_analytical", "aug", "ddm_dirs[i]", "dq[j] * ddm[j]", "the directional derivative is not sum_j dq_j dD/dq_j stored for direction i"),
        (f"{G}._perturb_D", "assign", "rot_eigsets", "np.dot(eigsets, eigvecs)", "the degenerate eigenvectors are not rotated by the eigenvectors of e^H dD_0 e"),
        (f"{G}._symmetrize_group_velocity", "ret", None, "gv_sym / len(rotations)", "the sum over rotations is not divided by their number"),
        (f"{G}._symmetrize_group_velocity", "assign", "diff", "(q - np.rint(q)) - np.dot(r, q - np.rint(q))", "the rotations kept are not those with R q = q for q reduced to the first zone"),
        (f"{G}._symmetrize_group_velocity", "assign", "r_cart", "similarity_transformation(self._reciprocal_lattice, r)", "the reciprocal operation is not converted to Cartesian coordinates with the reciprocal lattice"),
    ]
    for qn, kind, target, text, msg in S:
        try:
            sites.check(rep, "R12h", GV, qn, kind, target, text, msg + ": the reported group velocity is not the gradient of the frequency")
        except AnalysisError as e_:
            if not qn.endswith("._symmetrize_group_velocity"):
                raise
            # the site-symmetry average may be spelled without the loop these sites describe (a mask over the stack of
            # operations): its orientation is decided by R12k; the site is listed as not decided
            rep.unknown(f"R12h: {qn}: {core.norm(str(e_), 140)}")
    _r12k(rep)
    _r12n(rep)
    _r12o(rep)
    from rules import shared_readonly

    from rules import shared_viewupdate

    shared_viewupdate.run(rep, "R12m", ["phonopy/harmonic/derivative_dynmat.py", "phonopy/phonon/group_velocity.py", "phonopy/gruneisen/core.py", "phonopy/gruneisen/mesh.py", "phonopy/gruneisen/band_structure.py"])
    shared_readonly.run(rep, "R12l", ["phonopy/gruneisen/band_structure.py", "phonopy/gruneisen/mesh.py", "phonopy/gruneisen/core.py", "phonopy/phonon/group_velocity.py"], 5)
    # what the average accumulates, entry by entry (any spelling): row b of the addend is R_cart gv[b]
    from engine import symnp
    import sympy as _sp

    sg = core.find_def(GV, f"{G}._symmetrize_group_velocity")
    rc = [st.targets[0].id for st in ast.walk(sg) if isinstance(st, ast.Assign) and isinstance(st.value, ast.Call) and core.src(st.value.func) == "similarity_transformation" and isinstance(st.targets[0], ast.Name)]
    augs = [a for a in ast.walk(sg) if isinstance(a, ast.AugAssign) and isinstance(a.op, ast.Add) and isinstance(a.target, ast.Name)]
    gpar = sg.args.args[1].arg
    if len(rc) != 1 or len(augs) != 1:
        raise AnalysisError("R12h: _symmetrize_group_velocity no longer accumulates one term per Cartesian operation (similarity_transformation(...) then '+=')")
    Rm, Gm = symnp.matrix("R", 3, 3), symnp.matrix("g", 2, 3)
    got = symnp.Evaluator({rc[0]: Rm, gpar: Gm}, where="_symmetrize_group_velocity").ev(augs[0].value)
    want = [[sum(Rm[i][j] * Gm[b][j] for j in range(3)) for i in range(3)] for b in range(2)]
    ok_acc = symnp.shape(got) == (2, 3) and all(_sp.expand(got[b][i] - want[b][i]) == 0 for b in range(2) for i in range(3))
    rep.instance("R12h", GV, f"{G}._symmetrize_group_velocity", f"{core.norm(core.src(augs[0]), 70)} : row b of the addend is R_cart gv[b]", ok_acc,
                 f"the addend of the site-symmetry average has entry [0][1] = {got[0][1] if symnp.shape(got) == (2, 3) else symnp.shape(got)}, not sum_j R_cart[1][j] gv[0][j]: the velocities are rotated by the transposed (inverse) operation or not at all: the reported group velocity is not the gradient of the frequency", line=augs[0].lineno)
    pd = core.find_def(GV, f"{G}._perturb_D")
    eh = [st for st in ast.walk(pd) if isinstance(st, ast.Assign) and isinstance(st.value, ast.Call) and core.src(st.value.func) == "np.linalg.eigh" and isinstance(st.targets[0], ast.Tuple)]
    ok_eh = len(eh) == 1 and core.src(eh[0].targets[0].elts[1]) == "eigvecs" and symalg.same(symalg.open_expr(core.src(eh[0].value.args[0])), symalg.open_expr("np.dot(eigsets.T.conj(), np.dot(ddms[0], eigsets))"))[0]
    rep.instance("R12h", GV, f"{G}._perturb_D", "_, eigvecs = eigh(e^H dD_0 e) with dD_0 the derivative along the perturbation direction", ok_eh, "the rotation inside a degenerate set does not diagonalise e^H dD_0 e", line=pd.lineno)
    apps = [c.args[0] for c in ast.walk(pd) if isinstance(c, ast.Call) and core.src(c.func) == "gv.append" and c.args]
    ok_app = len(apps) == 1 and symalg.same(symalg.open_expr(core.src(apps[0])), symalg.open_expr("np.diag(np.dot(rot_eigsets.T.conj(), np.dot(ddm, rot_eigsets))).real"))[0]
    loops = [lp for lp in ast.walk(pd) if isinstance(lp, ast.For)]
    ok_loop = len(loops) == 1 and core.src(loops[0].iter).replace(" ", "") == "ddms[1:]"
    rep.instance("R12h", GV, f"{G}._perturb_D", "velocity components = diag(e'^H dD_k e').real for the three Cartesian derivatives ddms[1:]", ok_app and ok_loop, "the expectation values are not taken with the rotated eigenvectors over the Cartesian derivatives", line=pd.lineno)
    cq = core.find_def(GV, f"{G}._calculate_group_velocity_at_q")
    loop = [lp for lp in ast.walk(cq) if isinstance(lp, ast.For) and core.src(lp.iter) == "deg_sets"]
    ok_pos = False
    if len(loop) == 1:
        v = core.src(loop[0].target)
        st = [x for x in loop[0].body if isinstance(x, ast.Assign) and isinstance(x.targets[0], ast.Subscript) and core.src(x.targets[0].value) == "gv"]
        ag = [x for x in loop[0].body if isinstance(x, ast.AugAssign) and core.src(x.target) == "pos"]
        if len(st) == 1 and len(ag) == 1 and isinstance(st[0].targets[0].slice, ast.Slice):
            sl = st[0].targets[0].slice
            # locals of the loop body that only name a value (n_deg = len(deg)) are read through
            inl = {x.targets[0].id: core.src(x.value) for x in loop[0].body if isinstance(x, ast.Assign) and len(x.targets) == 1 and isinstance(x.targets[0], ast.Name) and x.targets[0].id != "pos"}

            def _thru(txt):
                import re as _re

                for _ in range(3):
                    for nm_, val_ in inl.items():
                        txt = _re.sub(rf"\b{_re.escape(nm_)}\b", f"({val_})", txt)
                return txt

            ok_pos = core.src(sl.lower) == "pos" and symalg.same(symalg.open_expr(_thru(core.src(sl.upper))), symalg.open_expr(f"pos + len({v})"))[0] and isinstance(ag[0].op, ast.Add) and symalg.same(symalg.open_expr(_thru(core.src(ag[0].value))), symalg.open_expr(f"len({v})"))[0] and symalg.same(symalg.open_expr(_thru(core.src(st[0].value))), symalg.open_expr(f"self._perturb_D(ddms, eigvecs[:, {v}])"))[0]
            init = [x for x in cq.body if isinstance(x, ast.Assign) and core.src(x.targets[0]) == "pos"]
            ok_pos = ok_pos and len(init) == 1 and core.src(init[0].value) == "0"
    rep.instance("R12h", GV, f"{G}._calculate_group_velocity_at_q", "gv[pos : pos + len(deg)] = perturb(ddms, eigvecs[:, deg]); pos += len(deg)", ok_pos, "the velocities of a degenerate set are not stored at the positions of its bands", line=cq.lineno)



def _r12o(rep):
    """The compiled derivative driver computes the block of every ordered atom pair, on both of its arms."""
    from engine import cast, cenum

    DDMC = "c/derivative_dynmat.c"
    rep.rule("R12o", "derivative driver: the per-pair kernel is called for every ordered pair (i, j) of primitive-cell atoms exactly once, on the OpenMP and on the serial arm (iteration space enumerated for 1, 2, 3 atoms, with and without NAC): the symmetrisation that follows averages block (i, j) with the conjugate transpose of block (j, i), which is the derivative of the Hermitian matrix that is diagonalised only if both were computed -- force constants without index-permutation symmetry are allowed", 12)
    tu = cast.load(DDMC)
    fn = tu.functions.get("ddm_get_derivative_dynmat_at_q")
    if fn is None:
        raise AnalysisError("anchor vanished: ddm_get_derivative_dynmat_at_q")
    pnames = [p_.get("name") for p_ in cast.params(fn)]
    ints = [p_.get("name") for p_ in cast.params(fn) if "*" not in cast.qtype(p_) and "[" not in cast.qtype(p_) and cast.is_int_type(cast.qtype(p_))]
    # roles: the atom count is the integer parameter the per-pair kernel receives too; the flags are the integers tested alone
    callee = "get_derivative_dynmat_at_q"
    cfn = tu.functions.get(callee)
    if cfn is None:
        raise AnalysisError(f"anchor vanished: {callee}")
    flags = []
    for x in cast.walk(fn):
        if x.get("kind") == "IfStmt":
            c = cast.strip(cast.kids(x)[0])
            if c.get("kind") == "DeclRefExpr" and cast.ref_name(c) in ints:
                if cast.ref_name(c) not in flags:
                    flags.append(cast.ref_name(c))
    sizes = [n_ for n_ in ints if n_ not in flags]
    if len(sizes) < 1 or not flags:
        raise AnalysisError(f"R12o: integer parameters of the driver not recognised (sizes {sizes}, flags {flags})")
    # positions of (i, j) in the call: the two arguments that vary over the enumeration
    import itertools

    for n_at in (1, 2, 3):
        for fl in itertools.product((0, 1), repeat=len(flags)):
            env = {s_: (n_at if k_ == 0 else 2 * n_at) for k_, s_ in enumerate(sizes)}
            env.update(dict(zip(flags, fl)))
            en = cenum.enumerate_stmt(cast.body(fn), env, where=f"ddm_get_derivative_dynmat_at_q [{env}]")
            calls = [a for c_, a in en.calls if c_ == callee]
            if not calls:
                pairs, shown = [], "<no call>"
            else:
                varying = [k_ for k_ in range(len(calls[0])) if calls[0][k_] is not None and (len({c[k_] for c in calls}) > 1 or n_at == 1)]
                # the pair indices are the first two integer arguments that are not sizes / flags passed through
                passthrough = {k_ for k_ in range(len(calls[0])) if all(c[k_] == calls[0][k_] for c in calls) and n_at > 1}
                idx = [k_ for k_ in range(len(calls[0])) if calls[0][k_] is not None and k_ not in passthrough][:2] if n_at > 1 else None
                if n_at == 1:
                    pairs = [(0, 0)] * len(calls)
                else:
                    if idx is None or len(idx) != 2:
                        raise AnalysisError("R12o: the pair indices among the arguments of the per-pair kernel are not recognised")
                    pairs = [(c[idx[0]], c[idx[1]]) for c in calls]
                shown = f"{len(calls)} calls"
            want = sorted(itertools.product(range(n_at), repeat=2))
            ok = sorted(pairs) == want
            missing = sorted(set(want) - set(pairs))
            dup = len(pairs) != len(set(pairs)) if n_at > 1 else len(pairs) != 1
            rep.instance("R12o", DDMC, "ddm_get_derivative_dynmat_at_q", f"{n_at} atom(s), {dict(zip(flags, fl))}: pairs handed to {callee}: {shown}", ok,
                         f"with {n_at} atoms and {dict(zip(flags, fl))} the per-pair kernel is called for {sorted(set(pairs))}" + (f", not for {missing}" if missing else "") + (" (some pair more than once: the kernel adds to the output)" if dup and not missing else "") + ": the blocks that are not computed stay zero, and what the symmetrisation makes of them is not the derivative of the Hermitian dynamical matrix unless the force constants happen to be symmetric under exchange of the two atoms",
                         line=tu.line(fn))


def _r12n(rep):
    """The expanded and the compressed crystal reach the Grueneisen classes under their own parameter names."""
    rep.rule("R12n", "Grueneisen wiring: in PhonopyGruneisen the dynamical matrix handed to the parameter dynmat_plus of GruneisenMesh / GruneisenBandStructure comes from the expanded crystal (self._phonon_plus), dynmat_minus from the compressed one and dynmat from the reference (positional arguments, starred sequences built by helpers and loops included): swapped, D+ - D- changes sign while an explicitly given delta_strain does not, and every mode Grueneisen parameter comes out with the opposite sign", 6)
    AG_ = "phonopy/api_gruneisen.py"
    cls = core.find_def(AG_, "PhonopyGruneisen")
    methods = {m.name: m for m in cls.body if isinstance(m, ast.FunctionDef)}
    sigs = {}
    for rel, cname in (("phonopy/gruneisen/mesh.py", "GruneisenMesh"), ("phonopy/gruneisen/band_structure.py", "GruneisenBandStructure")):
        init = core.find_def(rel, f"{cname}.__init__")
        sigs[cname] = [a.arg for a in init.args.args if a.arg != "self"]

    def seq_of(e, fn, depth=0):
        """source texts of the elements of a sequence expression, in order; None when it cannot be told"""
        if isinstance(e, (ast.Tuple, ast.List)):
            return [core.src(x) for x in e.elts]
        if isinstance(e, ast.ListComp) and len(e.generators) == 1 and isinstance(e.generators[0].iter, (ast.Tuple, ast.List)) and isinstance(e.generators[0].target, ast.Name):
            v = e.generators[0].target.id
            return [core.src(e.elt).replace(v, core.src(x)) for x in e.generators[0].iter.elts]
        if isinstance(e, ast.Call) and core.src(e.func) in ("tuple", "list") and e.args:
            inner = e.args[0]
            if isinstance(inner, ast.GeneratorExp):
                inner = ast.ListComp(elt=inner.elt, generators=inner.generators)
            return seq_of(inner, fn, depth)
        if isinstance(e, ast.Call) and isinstance(e.func, ast.Attribute) and core.src(e.func.value) == "self" and e.func.attr in methods and depth < 3:
            callee = methods[e.func.attr]
            rets = [r.value for r in ast.walk(callee) if isinstance(r, ast.Return) and r.value is not None and not (isinstance(r.value, ast.Constant))]
            outs = [seq_of(r, callee, depth + 1) for r in rets]
            return outs[0] if outs and all(o == outs[0] for o in outs) else None
        if isinstance(e, ast.Name) and fn is not None:
            asg = [st for st in ast.walk(fn) if isinstance(st, ast.Assign) and len(st.targets) == 1 and isinstance(st.targets[0], ast.Name) and st.targets[0].id == e.id]
            if len(asg) == 1 and isinstance(asg[0].value, ast.List) and not asg[0].value.elts:
                # filled by append in a loop over a literal sequence
                out = []
                for lp in [x for x in ast.walk(fn) if isinstance(x, ast.For) and isinstance(x.iter, (ast.Tuple, ast.List)) and isinstance(x.target, ast.Name)]:
                    apps = [c for c in ast.walk(lp) if isinstance(c, ast.Call) and isinstance(c.func, ast.Attribute) and c.func.attr == "append" and core.src(c.func.value) == e.id and c.args]
                    for el in lp.iter.elts:
                        for c in apps:
                            out.append(core.src(c.args[0]).replace(lp.target.id, core.src(el)))
                return out or None
            if len(asg) == 1:
                return seq_of(asg[0].value, fn, depth + 1)
        return None

    n = 0
    for m in methods.values():
        for c in ast.walk(m):
            if not (isinstance(c, ast.Call) and isinstance(c.func, ast.Name) and c.func.id in sigs):
                continue
            params = sigs[c.func.id]
            flat = []
            for a in c.args:
                if isinstance(a, ast.Starred):
                    sq = seq_of(a.value, m)
                    if sq is None:
                        raise AnalysisError(f"R12n: cannot expand '*{core.src(a.value)}' in the call of {c.func.id}")
                    flat += sq
                else:
                    flat.append(core.src(a))
            bound = dict(zip(params, flat))
            bound.update({k.arg: core.src(k.value) for k in c.keywords if k.arg})
            for pname, want in (("dynmat", None), ("dynmat_plus", "plus"), ("dynmat_minus", "minus")):
                if pname not in bound:
                    raise AnalysisError(f"R12n: {c.func.id}(...) in {m.name} does not receive '{pname}'")
                src_ = bound[pname]
                ok = (want in src_ and not any(o in src_ for o in ("plus", "minus") if o != want)) if want else not ("plus" in src_ or "minus" in src_)
                n += 1
                rep.instance("R12n", AG_, f"PhonopyGruneisen.{m.name}", f"{c.func.id}({pname}={core.norm(src_, 50)})", ok,
                             f"the parameter '{pname}' of {c.func.id} receives '{core.norm(src_, 60)}': the dynamical matrices of the expanded and the compressed crystal are exchanged (or the reference is not the reference), so with an explicit delta_strain the mode Grueneisen parameters change sign", line=c.lineno)
    if n < 6:
        raise AnalysisError(f"R12n: only {n} dynamical-matrix arguments of the Grueneisen classes found in PhonopyGruneisen")


def _r12k(rep):
    """The little group of q in the site-symmetry average: operations with R q = q, R acting from the left."""
    from engine import frames
    from engine.frames import L as LAT, U as UNK

    rep.rule("R12k", "site-symmetry average of the group velocity: the reciprocal operations are applied to the reduced q-point from the left (frame typing: an operation carries a component index and a basis index of the reciprocal lattice, q a component index; np.dot(q, R) -- also for the whole stack of operations -- is R^T q and selects the operations whose transpose leaves q invariant, which is another set in hexagonal axes and in primitive axes of centred lattices)", 1)
    fn = core.find_def(GV, "GroupVelocity._symmetrize_group_velocity")
    qpar = fn.args.args[2].arg if len(fn.args.args) > 2 else "q"
    ty = frames.Typer(fn, seeds={"self._symmetry.reciprocal_operations": (UNK, LAT("q", "+"), LAT("q", "-"))}, params={qpar: (LAT("q", "+"),)}, call_sigs={}, where=f"{GV}::GroupVelocity._symmetrize_group_velocity")
    problems = ty.run()
    if not problems and ty.n_typed < 1:
        raise AnalysisError("R12k: no product of a reciprocal operation with the q-point could be typed in GroupVelocity._symmetrize_group_velocity")
    rep.instance("R12k", GV, "GroupVelocity._symmetrize_group_velocity", f"{ty.n_typed} product(s) of reciprocal operations with q typed: R q", not problems,
                 (problems[0].message if problems else "") + ": the operations kept for the average are those with R^T q = q instead of R q = q; the velocity is averaged over rotations that do not leave q invariant and components of the true gradient are projected out", line=getattr(problems[0].node, "lineno", fn.lineno) if problems else fn.lineno)


def _r12i(rep):
    """Which modes count as degenerate is a numerical tolerance of its own, not the frequency below which group velocities
    are set to zero."""
    rep.rule("R12i", "degenerate sets in the group-velocity calculation are found with the tolerance of degenerate_sets itself (no argument) or a literal; the user-settable frequency cutoff that switches group velocities off (self._cutoff_frequency, a constructor argument) never reaches it, so that well separated modes above the cutoff keep the gradient of their own frequency", 1)
    GVF = "phonopy/phonon/group_velocity.py"
    cls = core.find_def(GVF, "GroupVelocity")
    init = [m for m in cls.body if isinstance(m, ast.FunctionDef) and m.name == "__init__"]
    user = set()
    if init:
        params = {a.arg for a in init[0].args.args + init[0].args.kwonlyargs}
        for st in ast.walk(init[0]):
            if isinstance(st, ast.Assign) and isinstance(st.targets[0], ast.Attribute) and {n.id for n in ast.walk(st.value) if isinstance(n, ast.Name)} & params:
                user.add(core.src(st.targets[0]))
    calls = [c for c in ast.walk(cls) if isinstance(c, ast.Call) and core.src(c.func).split(".")[-1] in ("degenerate_sets", "get_degenerate_sets")]
    if not calls:
        raise AnalysisError("R12i: GroupVelocity no longer calls degenerate_sets")
    for c in calls:
        tol = [k.value for k in c.keywords if k.arg == "cutoff"] + list(c.args[1:2])
        fn_ = core.enclosing_function(c)
        env = {st.targets[0].id: st.value for st in ast.walk(fn_) if isinstance(st, ast.Assign) and isinstance(st.targets[0], ast.Name)} if fn_ is not None else {}
        bad = None
        for t in tol:
            t = env.get(t.id, t) if isinstance(t, ast.Name) else t
            names = {core.src(n) for n in ast.walk(t) if isinstance(n, ast.Attribute)}
            if names & user:
                bad = sorted(names & user)[0]
        rep.instance("R12i", GVF, core.qualname_of(fn_) if fn_ is not None else "GroupVelocity", core.norm(core.src(c), 80), bad is None,
                     f"the tolerance that groups bands into degenerate sets is {bad}, a value the caller chooses to switch off group velocities of low-frequency modes: with a cutoff of 0.5 THz every chain of bands closer than 0.5 THz is re-diagonalised together and the reported velocities of those (non-degenerate) modes are no longer the gradients of their frequencies", line=c.lineno)



def _r12j(rep):
    """The Grueneisen mesh is reduced only by operations shared by all three crystals."""
    AG = "phonopy/api_gruneisen.py"
    rep.rule("R12j", "symmetry of the Grueneisen mesh: the rotations handed to GruneisenMesh come from a strained crystal (the plus or minus Phonopy object), whose point group is contained in that of the reference for an applied strain; the reference crystal's own (possibly larger) group would merge q-points at which D(V+) - D(V-) differs, so reduced and full meshes would disagree", 1)
    fn = core.find_def(AG, "PhonopyGruneisen.set_mesh")
    calls = [c for c in ast.walk(fn) if isinstance(c, ast.Call) and core.src(c.func).split(".")[-1] == "GruneisenMesh"]
    if len(calls) != 1:
        raise AnalysisError("PhonopyGruneisen.set_mesh: the GruneisenMesh construction vanished")
    rot = [k.value for k in calls[0].keywords if k.arg == "rotations"]
    if not rot:
        raise AnalysisError("PhonopyGruneisen.set_mesh: GruneisenMesh is built without rotations")

    def roots(e, depth=0):
        """the self._phonon* attributes an expression is read from; a name left over from a loop over a literal tuple is
        its last element"""
        out = set()
        for x in ast.walk(e):
            if isinstance(x, ast.Attribute) and core.src(x).startswith("self._phonon") and core.src(x.value) == "self":
                out.add(core.src(x))
            elif isinstance(x, ast.Name) and depth < 5:
                asg = [st for st in ast.walk(fn) if isinstance(st, ast.Assign) and len(st.targets) == 1 and isinstance(st.targets[0], ast.Name) and st.targets[0].id == x.id]
                loops = [lp for lp in ast.walk(fn) if isinstance(lp, ast.For) and isinstance(lp.target, ast.Name) and lp.target.id == x.id]
                if len(asg) == 1 and not loops:
                    out |= roots(asg[0].value, depth + 1)
                elif len(loops) == 1 and not asg:
                    it = core.resolve_name(fn, loops[0].iter)
                    if isinstance(it, (ast.Tuple, ast.List)) and it.elts and not any(isinstance(b, ast.Break) for b in ast.walk(loops[0])):
                        out |= roots(it.elts[-1], depth + 1)
        return out

    got = roots(rot[0])
    if not got:
        raise AnalysisError(f"PhonopyGruneisen.set_mesh: cannot tell which crystal the rotations '{core.src(rot[0])}' come from")
    rep.instance("R12j", AG, "PhonopyGruneisen.set_mesh", f"rotations from {sorted(got)}", got <= {"self._phonon_plus", "self._phonon_minus"},
                 f"the mesh is reduced with the point group of {sorted(got)}: for strained cells of lower symmetry than the reference (strain along one axis) q-points that are equivalent only in the reference are merged, and the Grueneisen parameters on the reduced mesh differ from those on the full mesh", line=calls[0].lineno)


def _r12g(rep):
    """Wang NAC term of the derivative kernel: dnac[i,j,a,b] = factor (v.Z_i)_a (v.Z_j)_b / (v.eps.v) / sqrt(m_i m_j) with
    v = reclat q (or the direction), and ddnac[n,i,j,a,b] is its derivative with respect to v_n (sympy differentiates
    the closed form of dnac; the kernel's element must equal it)."""
    from engine import cast, celem
    from rules.c08 import eq0 as c08_eq0

    DDMC = "c/derivative_dynmat.c"
    rep.rule("R12g", "NAC part of the compiled derivative: dnac is the Wang term in Cartesian q, ddnac[n] its partial derivative along Cartesian axis n for all 27 x 9 elements; with a direction given the direction is used, otherwise q", 4)
    tu = cast.load(DDMC, openmp=False, symbolize=("PI",))
    i, j, n = sp.symbols("i j num_patom", integer=True)
    fn_node = tu.functions.get("get_derivative_nac")
    if fn_node is None:
        raise AnalysisError("anchor vanished: get_derivative_nac")
    line = tu.line(fn_node)
    Z, eps, rl, massf = sp.Function("born"), sp.Function("dielectric"), sp.Function("reclat"), sp.Function("mass")
    v = [sp.Symbol(f"v{a}") for a in range(3)]
    top = cast.kids(cast.body(fn_node))
    # the statements up to the last one that writes the Cartesian vector compute it; the rest fills dnac / ddnac
    # (whatever the nest is split into: precomputed per-atom arrays, hoisted derivatives of the denominator ...)
    qc = None
    for d_ in cast.walk(cast.body(fn_node)):
        if d_.get("kind") == "VarDecl" and "[3]" in cast.qtype(d_) and "double" in cast.qtype(d_):
            writers = [k_ for k_, x in enumerate(top) if any(y.get("kind") in ("BinaryOperator", "CompoundAssignOperator") and cast.text(cast.kids(y)[0]).startswith(d_["name"] + "[") for y in cast.walk(x))]
            readers = [y for y in cast.walk(cast.body(fn_node)) if y.get("kind") == "CallExpr" and any(cast.text(a_).strip() == d_["name"] for a_ in cast.call_args(y))]
            if writers and readers and (qc is None or writers[0] < qc[1][0]):
                qc = (d_["name"], writers)
    if qc is None:
        raise AnalysisError("R12g: get_derivative_nac no longer computes a Cartesian vector that its helpers receive")
    qc_name, writers = qc
    first = top[: writers[-1] + 1]
    first = [x for x in first if x.get("kind") != "DeclStmt"]
    rest = top[writers[-1] + 1:]
    # (1) which vector is converted to Cartesian coordinates
    for arm, exa, qname in (("q-point", celem.ElemExec(tu, where=DDMC, consts={"PI": sp.pi}, null_pointers={"q_direction"}), "q"), ("direction", celem.ElemExec(tu, where=DDMC, consts={"PI": sp.pi}, nonnull_pointers={"q_direction"}), "q_direction")):
        st0 = celem.State(exa, "get_derivative_nac", {}, {}, 0)
        st0.local_arrays.add(qc_name)
        st0.block(first)
        ok_v = all(sp.expand(st0.cell(qc_name, a) - sum(rl(3 * a + b_) * sp.Function(qname)(b_) for b_ in range(3))) == 0 for a in range(3))
        rep.instance("R12g", DDMC, "get_derivative_nac", f"{arm}: v = reclat . {qname}", ok_v, f"{arm}: the Cartesian vector entering the NAC derivative is not reclat . {qname}", line=line)
    # (2) the fill nest in terms of v
    exv = celem.ElemExec(tu, where=DDMC, consts={"PI": sp.pi}, null_pointers={"q_direction"})
    st = celem.State(exv, "get_derivative_nac", {"num_patom": n, "factor": sp.Symbol("factor")}, {}, 0)
    st.local_arrays.add(qc_name)
    st.cells[qc_name] = [((sp.Integer(a),), (), v[a]) for a in range(3)]
    st.block([x for x in top if x.get("kind") == "DeclStmt"])
    st.block(rest)
    den = sum(v[a] * eps(3 * a + b_) * v[b_] for a in range(3) for b_ in range(3))
    bad_d, bad_dd = [], []
    for a in range(3):
        for b_ in range(3):
            A = sum(v[c] * Z(sp.expand(i * 9 + c * 3 + a)) for c in range(3))
            B = sum(v[c] * Z(sp.expand(j * 9 + c * 3 + b_)) for c in range(3))
            D0 = sp.Symbol("factor") * A * B / den / sp.sqrt(massf(i) * massf(j))
            got = st.cell("dnac", sp.expand(i * 9 * n + j * 9 + a * 3 + b_))
            if not c08_eq0(got - D0):
                bad_d.append((a, b_))
            for d in range(3):
                gotd = st.cell("ddnac", sp.expand(d * n * n * 9 + i * 9 * n + j * 9 + a * 3 + b_))
                if not c08_eq0(gotd - sp.diff(D0, v[d])):
                    bad_dd.append((d, a, b_))
    rep.instance("R12g", DDMC, "get_derivative_nac", "dnac[i,j,a,b] = factor (v.Z_i)_a (v.Z_j)_b / (v.eps.v) / sqrt(m_i m_j) for all 9 (a, b)", not bad_d,
                 f"the Wang term entering the derivative kernel is wrong for (a, b) in {bad_d[:4]}", line=line)
    rep.instance("R12g", DDMC, "get_derivative_nac", "ddnac[n,i,j,a,b] = d dnac / d v_n for all 27 (n, a, b)", not bad_dd,
                 f"ddnac is not the derivative of the Wang term along Cartesian axis n for (n, a, b) in {bad_dd[:4]}: with NAC the analytic group velocity is not the gradient of the frequencies", line=line)
    rep.assume("R12g: the dielectric tensor is symmetric is NOT needed here (the kernel differentiates v.eps.v exactly, get_dC = (eps + eps^T) v)")


def _r12f(rep):
    """Compiled derivative kernel = Cartesian q-derivative of the compiled forward kernel, term by term.
    The forward contribution of image k to D_ij[a][b] is fc/sqrt(m_i m_j) * mean_l e^{2 pi i q.s_l} (decided under C02);
    with q_red(m) = sum_n lattice[3 n + m] q_cart(n) its derivative along Cartesian axis n is compared with the closed
    form of ddm[n][a][b] obtained by element-wise symbolic execution, including the selection of the images of j and
    the NAC addends."""
    from engine import cast, celem

    DDMC = "c/derivative_dynmat.c"
    rep.rule("R12f", "compiled derivative kernel: for every Cartesian direction n and component (a, b), real and imaginary part, the generic element equals d/dq_cart[n] of the forward-kernel term (same images, same shortest vectors, same mass factor), plus the NAC addends dnac * coefficient and ddnac * phase when NAC is on; all 54 output cells are written at [n][3i+a][3j+b]", 4)
    tu = cast.load(DDMC, openmp=False, symbolize=("PI",))
    i, j, n, ns = sp.symbols("i j num_patom num_satom", integer=True)
    k, l = sp.Symbol("k", integer=True), sp.Symbol("l", integer=True)
    fcf, multi_f, svec_f, lat, qf, massf = (sp.Function(x) for x in ("fc", "multi", "svecs", "lattice", "q", "mass"))
    M, adrs = multi_f(k * n + i, 0), multi_f(k * n + i, 1)
    qc = [sp.Symbol(f"qc{a}") for a in range(3)]
    qred = [sum(lat(3 * a + m) * qc[a] for a in range(3)) for m in range(3)]
    phi_c = 2 * sp.pi * sum(qred[m] * svec_f(adrs + l, m) for m in range(3))
    back = {}
    for m in range(3):
        back[qred[m]] = qf(m)
    sel = sp.Function("ind_eq")
    fn_node = tu.functions.get("get_derivative_dynmat_at_q")
    if fn_node is None:
        raise AnalysisError("anchor vanished: get_derivative_dynmat_at_q")
    line = tu.line(fn_node)
    for arm, exa in (("without NAC", celem.ElemExec(tu, where=DDMC, consts={"PI": sp.pi}, null_pointers={"is_nac"})), ("with NAC", celem.ElemExec(tu, where=DDMC, consts={"PI": sp.pi}, nonnull_pointers={"is_nac"}))):
        st = exa.function("get_derivative_dynmat_at_q", scalars={"i": i, "j": j, "num_patom": n, "num_satom": ns})
        bad = []
        written = {tuple(str(x) for x in pat) for pat, _, _ in st.cells.get("derivative_dynmat", [])}
        want_written = set()
        for d in range(3):
            for a in range(3):
                for b in range(3):
                    adr = sp.expand(d * n * n * 9 + (i * 3 + a) * n * 3 + j * 3 + b)
                    elem = fcf(sp.expand(sp.Function("p2s_map")(i) * ns * 9 + k * 9 + a * 3 + b)) / sp.sqrt(massf(i) * massf(j))
                    if arm == "with NAC":
                        elem = elem + sp.Function("dnac")(sp.expand(i * 9 * n + j * 9 + a * 3 + b))
                    for c_, trig in ((0, sp.cos), (1, sp.sin)):
                        want_written.add((str(adr), str(c_)))
                        # chain rule with symbols for the reduced q: d/dq_cart[d] = sum_m lattice[3 d + m] d/dq_red[m]
                        qr = [sp.Symbol(f"_qr{m}") for m in range(3)]
                        phi_sym = 2 * sp.pi * sum(qr[m] * svec_f(adrs + l, m) for m in range(3))
                        dterm = sum(lat(3 * d + m) * sp.diff(trig(phi_sym), qr[m]) for m in range(3)).subs({qr[m]: qf(m) for m in range(3)})
                        phi_red = phi_sym.subs({qr[m]: qf(m) for m in range(3)})
                        term = elem * sp.Sum(dterm, (l, 0, M - 1)) / M
                        if arm == "with NAC":
                            term = term + sp.Function("ddnac")(sp.expand(d * n * n * 9 + i * 9 * n + j * 9 + a * 3 + b)) * sp.Sum(trig(phi_red), (l, 0, M - 1)) / M
                        got = st.cell("derivative_dynmat", adr, c_)
                        wants = [sp.Function("derivative_dynmat")(adr, c_) + sp.Sum(sf * term, (k, 0, ns - 1)) for sf in (sel(sp.Function("p2s_map")(j) - sp.Function("s2p_map")(k)), sel(sp.Function("s2p_map")(k) - sp.Function("p2s_map")(j)))]
                        if not any(celem.same(got, w_) for w_ in wants):
                            bad.append((d, a, b, "Re" if c_ == 0 else "Im", str(got)[:220]))
        rep.instance("R12f", DDMC, "get_derivative_dynmat_at_q", f"{arm}: all 27 x 2 elements equal d/dq_cart[n] of the forward term" + (" + dnac * coefficient + ddnac * phase" if arm == "with NAC" else ""), not bad,
                     f"{arm}: element (n, a, b, part) = {bad[0][:4] if bad else ''} is {bad[0][4] if bad else ''}: it is not the Cartesian derivative of the forward-kernel term over the same images and shortest vectors, so the analytic group velocity is not the gradient of the frequencies phonopy itself reports", line=line)
        rep.instance("R12f", DDMC, "get_derivative_dynmat_at_q", f"{arm}: exactly the 54 cells [n][3i+a][3j+b] are written", written == want_written, f"other cells than [n][3i+a][3j+b] are written ({sorted(written ^ want_written)[:3]})", line=line)


def _r12e(rep):
    """Frame typing of the finite-difference branch: the Cartesian unit directions are converted to reduced
    reciprocal coordinates by (L-, Cart) . (Cart) before they displace q."""
    from engine import frames
    from engine.frames import C as CART, L as LAT, U as UNK

    rep.rule("R12e", "finite-difference group velocity: the displacement handed to _delta_dynamical_matrix is the Cartesian direction converted to reduced coordinates with the matrix of matching orientation (frame typing), so that the difference is taken along the Cartesian axis the component is reported for", 2)
    QRED = (LAT("p", "-"),)
    fn = core.find_def(GV, "GroupVelocity._get_dD_FD")
    seeds = {"self._reciprocal_lattice": (CART, LAT("p", "+")), "self._reciprocal_lattice_inv": (LAT("p", "-"), CART), "self._directions": (UNK, CART), "self._q_length": ()}
    ty = frames.Typer(fn, seeds=seeds, params={"q": QRED}, call_sigs={"_delta_dynamical_matrix": {"pos": [QRED, QRED]}}, where=f"{GV}::_get_dD_FD")
    problems = ty.run()
    if not problems and ty.n_typed < 1:
        raise AnalysisError(f"R12e: only {ty.n_typed} typed constructs in GroupVelocity._get_dD_FD (the seeds no longer match the code)")
    rep.instance("R12e", GV, "GroupVelocity._get_dD_FD", f"{ty.n_typed} contractions / argument checks typed consistently", not problems,
                 (problems[0].message if problems else "") + ": for a primitive cell whose lattice matrix is not symmetric the finite difference is taken along the wrong q-directions and the reported velocity is not the Cartesian gradient of the frequency", line=(problems[0].node.lineno if problems else fn.lineno))
    init = core.find_def(GV, "GroupVelocity.__init__")
    st = [s_ for s_ in ast.walk(init) if isinstance(s_, ast.Assign) and core.src(s_.targets[0]) == "self._reciprocal_lattice_inv"]
    if not st:
        raise AnalysisError("anchor vanished: GroupVelocity._reciprocal_lattice_inv")
    ty2 = frames.Typer(init, seeds={}, params={}, where=f"{GV}::__init__")
    ty2.run()
    got = ty2.env.get("self._reciprocal_lattice_inv")
    rep.instance("R12e", GV, "GroupVelocity.__init__", f"self._reciprocal_lattice_inv : {frames.show(got)}", got is None or (frames.same_axis(got[0], LAT("p", "-")) is not False and frames.same_axis(got[-1], CART) is not False),
                 "the stored inverse reciprocal lattice is not the primitive cell with basis vectors in rows", line=st[0].lineno, nontrivial=got is not None)


PER_BAND_SOURCES = ("np.linalg.eigh", "np.linalg.eigvalsh", "rotate_eigenvectors")


def _band_paths(fn, perm="band_order"):
    """For each path through the loop over q-points: {list name: (domain, node)} of per-band values appended."""
    loops = [lp for lp in ast.walk(fn) if isinstance(lp, ast.For) and any(isinstance(x, ast.Name) and x.id == perm for x in ast.walk(lp))]
    if not loops:
        return None
    lp = loops[0]
    perband0 = set()
    for s in ast.walk(fn):
        if isinstance(s, ast.Assign) and isinstance(s.value, ast.Attribute) and s.value.attr == "group_velocities":
            perband0 |= {x.id for x in ast.walk(s.targets[0]) if isinstance(x, ast.Name)}

    def uses_perm(e):
        return any(isinstance(x, ast.Subscript) and any(isinstance(y, ast.Name) and y.id == perm for y in ast.walk(x.slice)) for x in ast.walk(e))

    def walk(stmts, env, perband, apps):
        # returns list of (env, perband, apps)
        states = [(dict(env), set(perband), dict(apps))]
        for s in stmts:
            nxt = []
            for env, perband, apps in states:
                if isinstance(s, ast.If):
                    nxt += walk(s.body, env, perband, apps)
                    nxt += walk(s.orelse, env, perband, apps)
                    continue
                if isinstance(s, ast.Assign):
                    names_v = {x.id for x in ast.walk(s.value) if isinstance(x, ast.Name)}
                    src_call = any(isinstance(c, ast.Call) and core.src(c.func) in PER_BAND_SOURCES for c in ast.walk(s.value))
                    tg = [x.id for t in s.targets for x in ast.walk(t) if isinstance(x, ast.Name) and isinstance(x.ctx, ast.Store)]
                    if src_call or names_v & perband:
                        if not (len(tg) == 1 and tg[0] == perm):
                            perband |= set(tg)
                            conn = uses_perm(s.value) or any(env.get(x) == "conn" for x in names_v if x in perband)
                            for t in tg:
                                env[t] = "conn" if conn else "raw"
                elif isinstance(s, ast.Expr) and isinstance(s.value, ast.Call) and isinstance(s.value.func, ast.Attribute) and s.value.func.attr == "append" and s.value.args:
                    a = s.value.args[0]
                    names_a = {x.id for x in ast.walk(a) if isinstance(x, ast.Name)}
                    if names_a & perband:
                        conn = uses_perm(a) or any(env.get(x) == "conn" for x in names_a if x in perband)
                        apps[core.src(s.value.func.value)] = ("conn" if conn else "raw", s)
                nxt.append((env, perband, apps))
            states = nxt
        return states

    return walk(lp.body, {}, perband0, {})


def _r12d(rep):
    for rel, qn in ((GR, "GruneisenBase._set_gruneisen"), ("phonopy/phonon/band_structure.py", "BandStructure._solve_dm_on_path")):
        fn = core.find_def(rel, qn)
        paths = _band_paths(fn)
        if not paths:
            raise AnalysisError(f"R12d: no q-point loop using band_order in {qn}")
        conn_paths = [apps for _, _, apps in paths if any(d == "conn" for d, _ in apps.values())]
        if not conn_paths:
            raise AnalysisError(f"R12d: no path of {qn} reorders a per-band result by band_order (anchor vanished)")
        bad = None
        for apps in conn_paths:
            for lst, (d, node) in apps.items():
                if d != "conn":
                    done = sorted(k for k, (dd, _) in apps.items() if dd == "conn")
                    bad = (node, f"'{core.norm(core.src(node), 60)}' stores the per-band values in eigh order while {done} are reordered by band_order on the same path: after a band crossing a band's value is paired with another band's eigenvalue")
        lists = sorted({k for apps in conn_paths for k in apps})
        rep.instance("R12d", rel, qn, f"{len(paths)} paths, {len(conn_paths)} with band connection; per-band lists {lists}", bad is None, bad[1] if bad else "", line=bad[0].lineno if bad else fn.lineno)


def selftest():
    V = []
    b = lambda name, file, old, new, rule, expect="", **kw: V.append(dict(name=name, kind="break", file=file, old=old, new=new, rule=rule, expect=expect, **kw))
    n = lambda name, file, old, new, **kw: V.append(dict(name=name, kind="neutral", file=file, old=old, new=new, **kw))
    DDMC_ = "c/derivative_dynmat.c"
    b("degenerate sets below the cutoff skipped before the row offset advances", GV, "        for deg in deg_sets:\n            gv[pos : pos + len(deg)] = self._perturb_D(ddms, eigvecs[:, deg])\n            pos += len(deg)", "        for deg in deg_sets:\n            if freqs[deg[-1]] <= self._cutoff_frequency:\n                continue\n            gv[pos : pos + len(deg)] = self._perturb_D(ddms, eigvecs[:, deg])\n            pos += len(deg)", "R12y.offset", "_calculate_group_velocity_at_q")
    n("row offset advanced through a local holding the size of the set", GV, "        for deg in deg_sets:\n            gv[pos : pos + len(deg)] = self._perturb_D(ddms, eigvecs[:, deg])\n            pos += len(deg)", "        for deg in deg_sets:\n            n_deg = len(deg)\n            gv[pos : pos + n_deg] = self._perturb_D(ddms, eigvecs[:, deg])\n            pos += n_deg")
    b("derivative driver computes the upper triangle of pairs only", DDMC_, "            for (j = 0; j < num_patom; j++) {\n                get_derivative_dynmat_at_q(derivative_dynmat, i, j, ddnac, dnac,", "            for (j = i; j < num_patom; j++) {\n                get_derivative_dynmat_at_q(derivative_dynmat, i, j, ddnac, dnac,", "R12o", "ddm_get_derivative_dynmat_at_q")
    n("derivative driver: serial arm flattened like the parallel one", DDMC_, "        for (i = 0; i < num_patom; i++) {\n            for (j = 0; j < num_patom; j++) {\n                get_derivative_dynmat_at_q(derivative_dynmat, i, j, ddnac, dnac,\n                                           is_nac, num_patom, num_satom, fc, q,\n                                           lattice, svecs, multi, mass, s2p_map,\n                                           p2s_map);\n            }\n        }", "        for (ij = 0; ij < num_patom * num_patom; ij++) {\n            j = ij / num_patom;\n            i = ij % num_patom;\n            get_derivative_dynmat_at_q(derivative_dynmat, i, j, ddnac, dnac,\n                                       is_nac, num_patom, num_satom, fc, q,\n                                       lattice, svecs, multi, mass, s2p_map,\n                                       p2s_map);\n        }")
    b("Grueneisen mesh receives the compressed crystal as dynmat_plus", "phonopy/api_gruneisen.py", "            self._phonon_plus.dynamical_matrix,\n            self._phonon_minus.dynamical_matrix,\n            mesh,", "            self._phonon_minus.dynamical_matrix,\n            self._phonon_plus.dynamical_matrix,\n            mesh,", "R12n", "set_mesh")
    b("chain rule loses the 1/2", GV, "                gv[i, :] *= self._factor**2 / f / 2", "                gv[i, :] *= self._factor**2 / f", "R12a", "gv[i, :]")
    b("chain rule with one factor", GV, "                gv[i, :] *= self._factor**2 / f / 2", "                gv[i, :] *= self._factor / f / 2", "R12a", "gv[i, :]")
    b("finite difference divided by the step only", GV, "_delta_dynamical_matrix(q, dq, self._dynmat) / self._q_length / 2", "_delta_dynamical_matrix(q, dq, self._dynmat) / self._q_length", "R12a", "_get_dD_FD")
    b("one-sided difference", GV, "    dynmat.run(q - delta_q)\n", "    dynmat.run(q)\n", "R12a", "_delta_dynamical_matrix")
    b("gruneisen sign", GR, "self._gruneisen = -edDe / self._delta_strain / self._eigenvalues / 2", "self._gruneisen = edDe / self._delta_strain / self._eigenvalues / 2", "R12b", "_gruneisen")
    b("gruneisen dD reversed", GR, "dD = self._get_dD(q, self._dynmat_minus, self._dynmat_plus)", "dD = self._get_dD(q, self._dynmat_plus, self._dynmat_minus)", "R12b", "_get_dD")
    b("access path to a missing attribute", GV, "    return gv.group_velocities[0]", "    return gv.group_velocity[0]", "R12c", "group_velocity")
    b("FD displacement with the transposed cell", GV, "            dq = np.dot(self._reciprocal_lattice_inv, dqc)", "            dq = np.dot(dqc, self._reciprocal_lattice_inv)", "R12e", "_get_dD_FD")
    n("FD displacement as matmul", GV, "            dq = np.dot(self._reciprocal_lattice_inv, dqc)", "            dq = self._reciprocal_lattice_inv @ dqc")
    b("edDe appended without band order", GR, "                edDe.append(edDe_at_q[band_order])", "                edDe.append(edDe_at_q)", "R12d", "_set_gruneisen")
    b("group velocities on a band path not reordered", "phonopy/phonon/band_structure.py", "                    gv_on_path.append(gv[i][band_order])", "                    gv_on_path.append(gv[i])", "R12d", "_solve_dm_on_path")
    n("chain rule refactored", GV, "                gv[i, :] *= self._factor**2 / f / 2", "                gv[i, :] *= 0.5 * self._factor * self._factor / f")
    DDMC = "c/derivative_dynmat.c"
    b("derivative kernel: coefficient sign", DDMC, "                real_coef[m] -= coef[m] * s;", "                real_coef[m] += coef[m] * s;", "R12f", "get_derivative_dynmat_at_q")
    b("derivative kernel: lattice row and column swapped", DDMC, "                        2 * PI * lattice[m * 3 + n] * svecs[svecs_adrs + l][n];", "                        2 * PI * lattice[n * 3 + m] * svecs[svecs_adrs + l][n];", "R12f", "get_derivative_dynmat_at_q")
    b("derivative kernel: image selection on i", DDMC, "        if (s2p_map[k] != p2s_map[j]) {\n            continue;\n        }\n\n        real_phase = 0;", "        if (s2p_map[k] != p2s_map[i]) {\n            continue;\n        }\n\n        real_phase = 0;", "R12f", "get_derivative_dynmat_at_q")
    n("derivative kernel: factors reordered", DDMC, "                    ddm_real[n][l][m] += fc_elem * real_coef[n];", "                    ddm_real[n][l][m] += real_coef[n] * fc_elem;")
    b("NAC derivative: quotient rule sign", DDMC, "                            (da * b + db * a - a * b * dc / c) /", "                            (da * b + db * a + a * b * dc / c) /", "R12g", "ddnac")
    b("NAC derivative: mass factor dropped", DDMC, "                                a * b / (c * mass_sqrt) * factor;", "                                a * b / c * factor;", "R12g", "dnac")
    b("directional derivative mixes the components", GV, "                ddm_dirs[i] += dq[j] * ddm[j]", "                ddm_dirs[i] += dq[i] * ddm[j]", "R12h", "_get_dD_analytical")
    b("little group of q selected with q.R for the whole stack", GV, "        rotations = []\n        for r in self._symmetry.reciprocal_operations:\n            q_in_BZ = q - np.rint(q)\n            diff = q_in_BZ - np.dot(r, q_in_BZ)\n            if (np.abs(diff) < self._symmetry.tolerance).all():\n                rotations.append(r)\n\n        gv_sym = np.zeros_like(gv)\n        for r in rotations:\n            r_cart = similarity_transformation(self._reciprocal_lattice, r)\n            gv_sym += np.dot(r_cart, gv.T).T\n\n        return gv_sym / len(rotations)\n", "        q_in_BZ = q - np.rint(q)\n        rec_ops = self._symmetry.reciprocal_operations\n        diffs = np.dot(q_in_BZ, rec_ops) - q_in_BZ\n        is_site_sym = (np.abs(diffs) < self._symmetry.tolerance).all(axis=1)\n\n        gv_sym = np.zeros_like(gv)\n        for r in rec_ops[is_site_sym]:\n            r_cart = similarity_transformation(self._reciprocal_lattice, r)\n            gv_sym += np.dot(gv, r_cart.T)\n\n        return gv_sym / np.count_nonzero(is_site_sym)\n", "R12k", "_symmetrize_group_velocity")
    n("little group of q selected with R.q for the whole stack", GV, "        rotations = []\n        for r in self._symmetry.reciprocal_operations:\n            q_in_BZ = q - np.rint(q)\n            diff = q_in_BZ - np.dot(r, q_in_BZ)\n            if (np.abs(diff) < self._symmetry.tolerance).all():\n                rotations.append(r)\n\n        gv_sym = np.zeros_like(gv)\n        for r in rotations:\n            r_cart = similarity_transformation(self._reciprocal_lattice, r)\n            gv_sym += np.dot(r_cart, gv.T).T\n\n        return gv_sym / len(rotations)\n", "        q_in_BZ = q - np.rint(q)\n        rec_ops = self._symmetry.reciprocal_operations\n        diffs = np.dot(rec_ops, q_in_BZ) - q_in_BZ\n        is_site_sym = (np.abs(diffs) < self._symmetry.tolerance).all(axis=1)\n\n        gv_sym = np.zeros_like(gv)\n        for r in rec_ops[is_site_sym]:\n            r_cart = similarity_transformation(self._reciprocal_lattice, r)\n            gv_sym += np.dot(gv, r_cart.T)\n\n        return gv_sym / np.count_nonzero(is_site_sym)\n")
    b("velocities rotated by the transposed operation", GV, "            gv_sym += np.dot(r_cart, gv.T).T", "            gv_sym += np.dot(gv, r_cart)", "R12h", "_symmetrize_group_velocity")
    b("symmetrised velocity not averaged", GV, "        return gv_sym / len(rotations)", "        return gv_sym", "R12h", "_symmetrize_group_velocity")
    b("degenerate set placed one band too far", GV, "            gv[pos : pos + len(deg)] = self._perturb_D(ddms, eigvecs[:, deg])", "            gv[pos + 1 : pos + 1 + len(deg)] = self._perturb_D(ddms, eigvecs[:, deg])", "R12h", "_calculate_group_velocity_at_q")
    b("degeneracy tolerance taken from the velocity cutoff", GV, "        deg_sets = degenerate_sets(freqs)", "        deg_sets = degenerate_sets(freqs, cutoff=self._cutoff_frequency)", "R12i", "degenerate_sets")
    n("degeneracy tolerance given as a literal", GV, "        deg_sets = degenerate_sets(freqs)", "        deg_sets = degenerate_sets(freqs, cutoff=1e-4)")
    b("Grueneisen mesh reduced with the reference crystal's point group", "phonopy/api_gruneisen.py", "        symmetry = phonon.primitive_symmetry", "        symmetry = self._phonon.primitive_symmetry", "R12j", "rotations")
    return V
