"""R13h -- dense row-major addressing of flattened arrays (part of C13).

Every subscript of a flattened array that is affine in loop variables must be a *perfect* mixed-radix numeral of its
digits: sorted by stride, each stride equals the previous stride times the previous digit's range (literal offsets
0..c-1 of sibling accesses and common integer factors count as an implicit lowest digit; lookups and per-call
parameters are digits of unknown range and may only be followed by a stride that is a proper monomial multiple).
A stride slip (`i * n * 2 + j`, `a - b`, `i / n`) leaves gaps or overlaps: elements are read or written at the wrong
place although every index may still be inside the array (which is all the bounds rules R13d see).
"""

from __future__ import annotations

import itertools

import sympy as sp

from engine import core

# (function, array): reason -- confirmed by reading
EXCEPTIONS = {
    ("phpy_set_smallest_vectors_sparse", "smallest_vectors"): "rows are appended at a running counter, not at a loop digit",
    ("set_index_permutation_symmetry_fc", "fc"): "diagonal block i == j with a triangular loop l > k",
    ("distribute_fc2", "permutations"): "row selected through two lookups, column added by the callee",
}
PARAM_DIGITS = {"i", "j", "k", "l", "m", "n", "g", "a", "b", "ij", "atom_i", "cart_i", "cart_j", "cart_k", "i_pair", "adrs", "count", "gp", "ir_gp"}


def _pos_monomial(c):
    c = sp.factor(c)
    if c.is_Number:
        return c > 0
    if c.is_Symbol or isinstance(c, sp.floor):
        return True
    if c.is_Mul:
        return all(_pos_monomial(a) for a in c.args)
    if c.is_Pow:
        return c.exp.is_Integer and c.exp > 0 and _pos_monomial(c.base)
    return False


def _int_part(e):
    ts = [t for t in sp.Add.make_args(sp.expand(e)) if t.is_Integer]
    return int(sum(ts)) if ts else 0


def check(acc, siblings):
    """(True, order) | (False, why) | (None, reason not applicable)."""
    expr = sp.expand(acc.index)
    loopd = {d: acc.vars[d] for d in acc.vars if expr.has(d)}
    atoms = list(expr.atoms(sp.Function))
    rep = {a: sp.Dummy(f"op{n}") for n, a in enumerate(atoms)}
    e2 = expr.subs(rep)
    gens = list(loopd) + list(rep.values())
    for s_ in [s_ for s_ in e2.free_symbols if s_ not in gens]:
        if str(s_).split("@")[0].lstrip("?") in PARAM_DIGITS:
            try:
                if sp.Poly(e2, s_).degree() == 1:
                    gens.append(s_)
            except sp.PolynomialError:
                pass
    if not gens:
        return None, "constant subscript"
    try:
        P = sp.Poly(e2, *gens)
    except sp.PolynomialError:
        return None, "not polynomial"
    if P.total_degree() > 1:
        return None, "not affine"
    items = []
    for g in gens:
        c = P.coeff_monomial(g)
        if c == 0:
            continue
        hi = loopd[g][1] if g in loopd else None
        for p_ in sp.Add.make_args(sp.expand(c)):
            if not _pos_monomial(p_):
                return False, f"the stride {c} of '{str(g).split('@')[0]}' is not a positive product of sizes"
            items.append((g, p_, hi))
    if len(items) > 7:
        return None, "too many digits"
    cint = _int_part(P.coeff_monomial(1))
    key = sp.expand(expr - cint)
    offs = sorted({_int_part(a.index) for a in siblings if sp.expand(sp.expand(a.index) - _int_part(a.index)) == key})
    implicit = {1}
    if len(offs) > 1 and offs == list(range(len(offs))):
        implicit.add(len(offs))
    ints = []
    for _, c, _ in items:
        k0 = sp.factor_terms(c).as_coeff_Mul()[0]
        ints.append(int(k0) if k0.is_Integer else 1)
    g_ = sp.igcd(*ints) if len(ints) > 1 else (ints[0] if ints else 1)
    if g_ > 1:
        implicit.add(int(g_))
    # an opaque term with the same stride as a loop digit is an offset added to that digit
    merged = []
    loop_strides = {sp.expand(c) for g, c, hi in items if hi is not None}
    opaque_seen = set()
    for g, c, hi in items:
        if hi is None and sp.expand(c) in loop_strides:
            continue
        if hi is None:
            # several offsets with the same stride (adrs + count) add up to one digit of unknown range
            if sp.expand(c) in opaque_seen:
                continue
            opaque_seen.add(sp.expand(c))
        merged.append((g, c, hi))
    for order in itertools.permutations(merged):
        for imp in implicit:
            cur, exact, ok = sp.Integer(imp), True, True
            for g, c, hi in order:
                if exact:
                    if sp.expand(c - cur) != 0:
                        ok = False
                        break
                else:
                    r = sp.cancel(c / cur)
                    if not (sp.denom(r) == 1 and _pos_monomial(r) and r != 1):
                        ok = False
                        break
                if hi is not None:
                    cur, exact = sp.expand(c * hi), True
                else:
                    cur, exact = c, False
            if ok:
                return True, [str(x[0]).split("@")[0] for x in order]
    shown = ", ".join(f"{str(g).split('@')[0]}: stride {c}" + (f", range {hi}" if hi is not None else "") for g, c, hi in merged)
    return False, f"the strides do not form a dense row-major numeral ({shown}; lowest stride {sorted(implicit)})"


def run(rep: core.Report, an, tus):
    rep.rule("R13h", "dense row-major addressing: every affine subscript of a flattened array is a perfect mixed-radix numeral of its loop digits (stride of each digit = stride x range of the digit below; lookups and per-call parameters as digits of unknown range)", 250)
    n = 0
    for tu in tus:
        for name in tu.functions:
            s = an.summary(name)
            if s is None:
                continue
            groups = {}
            for acc in list(s.writes) + list(getattr(s, "reads", [])):
                if acc.via:
                    continue
                groups.setdefault(acc.base, []).append(acc)
            for base, accs in groups.items():
                seen = set()
                for acc in accs:
                    k = str(acc.index)
                    if k in seen:
                        continue
                    seen.add(k)
                    ok, why = check(acc, accs)
                    if ok is None:
                        continue
                    if ok is False and (name, base) in EXCEPTIONS:
                        rep.note(f"R13h exception {name}/{base}: {EXCEPTIONS[(name, base)]}")
                        continue
                    n += 1
                    shown = str(acc.index)
                    for v in acc.vars:
                        shown = shown.replace(str(v), str(v).split("@")[0])
                    rep.instance("R13h", tu.rel, name, f"{base}[{core.norm(shown, 90)}] ({acc.op})", bool(ok),
                                 f"{why}: elements of '{base}' are {'written' if acc.op != 'read' else 'read'} at the wrong place (gaps or overlaps between rows) although the subscript may stay inside the array", line=acc.line, nontrivial=True)
    if n < 250:
        raise core.AnalysisError(f"R13h: only {n} affine subscripts analysed")
