"""C08 -- non-analytical term correction: the clauses that are visible in the code (DESIGN section 3 C08).

Decided: closed form, direction-length independence and Born bilinearity of the zone-centre term (Wang: C kernel and
Python fallback; Gonze-Lee: the G = 0 term and multiply_borns); the Wang addend is constant over the images of a
primitive atom.  Not decided: that the reciprocal-space sum of the Gonze-Lee method cancels at commensurate points
(a lattice-sum identity) and the numerical precision of that sum.
"""

from __future__ import annotations

import ast

import sympy as sp

from engine import cast, celem, core, symalg
from engine.core import AnalysisError

DYN = "c/dynmat.c"
PYDM = "phonopy/harmonic/dynamical_matrix.py"


def _scaled(expr, fname, s):
    """expr with every f(k) of the uninterpreted array `fname` replaced by s * f(k)."""
    reps = {x: s * x for x in expr.atoms(sp.Function) if x.func.__name__ == fname}
    return expr.subs(reps, simultaneous=True)


def eq0(expr):
    """expr == 0 as a rational function (numerator of the combined fraction expands to 0)."""
    return sp.expand(sp.numer(sp.together(expr))) == 0


def run(rep: core.Report):
    rep.rule("R08a", "Wang method, compiled kernel: the addend to the force constants is nac_factor/N (v.Z_i)_a (v.Z_j)_b / (v.eps.v) with v the Cartesian q (or the direction at the zone centre): documented closed form, homogeneous of degree 0 in v (independent of the length of the direction), bilinear in the Born charges (zero charges: no correction)", 7)
    rep.rule("R08b", "Wang method, Python fallback: same closed form (np.dot(q, born) contracts the same Born axis as the kernel, outer product per atom pair, constant = unit 4 pi / V / (q.eps.q), addend / N)", 4)
    rep.rule("R08c", "the Wang addend is the same for all supercell images of a primitive atom (its subscripts do not involve the supercell atom or its lattice vector): necessary for the correction to cancel at non-zero commensurate q", 2)
    rep.rule("R08d", "Gonze-Lee method: the G + q = 0 term along a direction n is n_a n_b / (n.eps.n) (degree 0 in n), absent without a direction; dd is produced from the bare reciprocal sum only through multiply_borns, which is bilinear in the Born charges", 5)
    rep.rule("R08e", "Gonze-Lee short-range force constants: the dynamical matrices, the dipole-dipole terms subtracted from them and the inverse transform all use the same representatives of the commensurate points (flow-sensitive labels on the point arrays)", 1)
    _r08e(rep)
    _r08f(rep)
    _r08g(rep)
    _r08h(rep)
    tu = cast.load(DYN)
    ex = celem.ElemExec(tu, where=DYN)
    i, j, n = sp.symbols("i j num_patom", integer=True)
    N = sp.Symbol("N", positive=True)
    s = sp.Symbol("s_", positive=True)
    # ---- R08a ------------------------------------------------------------
    cs = ex.function("dym_get_charge_sum")
    want_fn = tu.functions.get("get_dynmat_want")
    if want_fn is None:
        raise AnalysisError("anchor vanished: get_dynmat_want")
    from engine import cpaths

    pnames = [p_.get("name") for p_ in cast.params(want_fn)]
    for need in ("qpoint", "q_direction", "q_zero_tolerance"):
        if need not in pnames:
            raise AnalysisError(f"R08a: get_dynmat_want lost its parameter '{need}'")
    # roles: the Cartesian q is what get_q_cart fills from the q-point; the Cartesian direction is the parameter that
    # the caller fills by get_q_cart from its q_direction
    qvec = None
    for c in cast.walk(want_fn):
        if c.get("kind") == "CallExpr" and cast.callee_name(c) == "get_q_cart" and cast.ref_name(cast.call_args(c)[1]) == "qpoint":
            qvec = cast.ref_name(cast.call_args(c)[0])
    dirvec = None
    for fn_ in tu.functions.values():
        filled = {cast.ref_name(cast.call_args(c)[0]) for c in cast.walk(fn_) if c.get("kind") == "CallExpr" and cast.callee_name(c) == "get_q_cart" and cast.ref_name(cast.call_args(c)[1]) == "q_direction"}
        for c in cast.walk(fn_):
            if c.get("kind") == "CallExpr" and cast.callee_name(c) == "get_dynmat_want":
                for k_, a_ in enumerate(cast.call_args(c)):
                    if cast.ref_name(a_) in filled and k_ < len(pnames):
                        dirvec = pnames[k_]
    if qvec is None or dirvec is None:
        raise AnalysisError(f"R08a: cannot identify the Cartesian q ({qvec}) / the Cartesian direction ({dirvec}) of get_dynmat_want")

    def _vec_of(node, env):
        n_ = cast.ref_name(node)
        hops = 0
        while n_ in env and hops < 8 and n_ not in (qvec, dirvec):
            n_ = cast.ref_name(env[n_])
            hops += 1
        return n_

    def classify(atom, truth, env):
        """('small'|'dir'|'const', value) of an atomic condition"""
        a0 = cast.strip(atom)
        if cast.ref_name(a0) == "q_direction":
            return "dir", truth
        if a0.get("kind") == "BinaryOperator" and a0.get("opcode") in ("==", "!="):
            l_, r_ = cast.kids(a0)
            sides = [cast.ref_name(l_), cast.ref_name(r_)]
            if "q_direction" in sides and not any(x.get("kind") == "DeclRefExpr" for y in (l_, r_) if cast.ref_name(y) != "q_direction" for x in cast.walk(y)):
                return "dir", truth == (a0.get("opcode") == "!=")
        if a0.get("kind") == "BinaryOperator" and a0.get("opcode") in ("<", "<=", ">", ">="):
            l_, r_ = cast.kids(a0)
            ln, rn = cast.ref_name(l_), cast.ref_name(r_)
            other = l_ if rn == "q_zero_tolerance" else (r_ if ln == "q_zero_tolerance" else None)
            if other is not None:
                names = {x.get("referencedDecl", {}).get("name") for x in cast.walk(other) if x.get("kind") == "DeclRefExpr"}
                grown = set()
                while names - grown:  # through the once-assigned locals (q_norm = sqrt(q_cart . q_cart))
                    nm = (names - grown).pop()
                    grown.add(nm)
                    if nm in env:
                        names |= {x.get("referencedDecl", {}).get("name") for x in cast.walk(env[nm]) if x.get("kind") == "DeclRefExpr"}
                leaves = {nm for nm in names if nm not in env} - {"sqrt", "fabs"}
                if leaves != {qvec}:
                    raise AnalysisError(f"R08a: the length compared with q_zero_tolerance is computed from {sorted(leaves)}, not from the Cartesian q-point '{qvec}'")
                below = (a0.get("opcode") in ("<", "<=")) == (rn == "q_zero_tolerance")
                return "small", truth == below
        if a0.get("kind") == "BinaryOperator" and a0.get("opcode") in ("==", "!="):
            # identity of two vectors (q_nac == q_cart with q_nac chosen earlier on this path): decided by the path
            l_, r_ = cast.kids(a0)
            lv, rv = _vec_of(l_, env), _vec_of(r_, env)
            if lv in (qvec, dirvec) and rv in (qvec, dirvec):
                return "const", truth == ((lv == rv) == (a0.get("opcode") == "=="))
        raise AnalysisError(f"R08a: unclassified condition '{cast.text(atom)}' in get_dynmat_want")

    vec_of = _vec_of

    outcomes = {}  # (small, dir) -> set of (vector | None)
    configs = {}  # vector name -> (call node, factor args node, env)
    allp = cpaths.paths(want_fn)
    for pth in allp:
        env, facts, vec, dm_arg, order_ok = {}, {}, "<no call>", "<no call>", True
        for ev in pth:
            if ev[0] == "cond":
                k_, v_ = classify(ev[1], ev[2], env)
                if k_ == "const":
                    if not v_:  # the path assumes an outcome that the earlier choices exclude
                        facts = None
                        break
                    continue
                if facts.get(k_, v_) != v_:
                    facts = None
                    break
                facts[k_] = v_
            elif ev[0] == "stmt":
                as_ = cpaths.assignment(ev)
                if as_:
                    env[as_[0]] = as_[1]
                for c in cpaths.calls(ev, "dym_get_charge_sum"):
                    a_ = [cpaths.resolve(x, ev[2]) for x in cast.call_args(c)]
                    vec = vec_of(a_[3], env)
                    if dm_arg != "<no call>":
                        order_ok = False
                    configs.setdefault(vec, (c, a_, dict(env)))
                for c in cpaths.calls(ev, "dym_get_dynamical_matrix_at_q"):
                    a_ = [cpaths.resolve(x, ev[2]) for x in cast.call_args(c)]
                    val = a_[10]
                    hops = 0
                    while cast.ref_name(val) in env and hops < 8:  # a local pointer: what it holds on this path
                        val = env[cast.ref_name(val)]
                        hops += 1
                    dm_arg = "array" if any(x.get("kind") in ("DeclRefExpr", "CallExpr") for x in cast.walk(val)) else None
        if facts is None:
            continue
        if dm_arg == "<no call>":
            got = "<no dynamical matrix computed>"
        elif dm_arg is None:
            got = None
        elif vec == "<no call>" or not order_ok:
            got = "<charge sum handed over before it is computed>"
        else:
            got = vec
        for sm in (True, False):
            for dr in (True, False):
                if facts.get("small", sm) == sm and facts.get("dir", dr) == dr:
                    outcomes.setdefault((sm, dr), set()).add(got)
    if not configs:
        raise AnalysisError("R08a: no call of dym_get_charge_sum on any path of get_dynmat_want")
    # the number of lattice points per primitive cell, by role: the local assigned num_satom / num_patom
    n_name = next((cast.ref_name(cast.kids(x)[0]) for x in cast.walk(want_fn) if x.get("kind") == "BinaryOperator" and x.get("opcode") == "=" and cast.text(cast.strip(cast.kids(x)[1])).replace("(", "").replace(")", "") == "num_satom / num_patom"), "n")
    ctx = celem.State(ex, "get_dynmat_want", {"nac_factor": sp.Symbol("nac_factor"), n_name: N, "num_patom": n}, {}, 0)
    eps = sp.Function("dielectric")
    for qname, (c, args, env_) in sorted(configs.items(), key=lambda kv: str(kv[0])):
        qname = str(qname)
        factor = ctx.expr(args[2])
        factor = factor.subs({x: sp.Function(x.func.__name__)(*x.args) for x in factor.atoms(sp.Function)})
        # a pointer local standing for the vector on this path (q_nac = q_direction ? q_dir_cart : q_cart)
        factor = factor.subs({x: sp.Function(qname)(*x.args) for x in factor.atoms(sp.Function) if x.func.__name__ in env_ and vec_of(env_[x.func.__name__], env_) == qname})
        bad_form, bad_deg, bad_born, sample = [], [], [], None
        v = [sp.Function(qname)(k) for k in range(3)]
        Z = sp.Function("born")
        den = sum(v[p] * eps(p, q) * v[q] for p in range(3) for q in range(3))
        for a in range(3):
            for b in range(3):
                e = cs.cell("charge_sum", i * n + j, a, b)
                e = e.subs(sp.Symbol("factor"), factor)
                e = e.subs({x: sp.Function(qname)(*x.args) for x in e.atoms(sp.Function) if x.func.__name__ == "q_cart"})
                want = sp.Symbol("nac_factor") / N * sum(v[k] * Z(i, k, a) for k in range(3)) * sum(v[k] * Z(j, k, b) for k in range(3)) / den
                if not eq0(e - want):
                    bad_form.append((a, b, e))
                if not eq0(_scaled(e, qname, s) - e):
                    bad_deg.append((a, b))
                if not eq0(_scaled(e, "born", s) - s**2 * e):
                    bad_born.append((a, b))
                sample = sample or str(e)[:300]
        line = tu.line(c)
        rep.instance("R08a", DYN, "get_dynmat_want", f"charge_sum[i, j][a][b] with v = {qname}: documented closed form for all 9 (a, b)", not bad_form,
                     f"for (a, b) = {bad_form[0][:2] if bad_form else ''} the addend is {bad_form[0][2] if bad_form else ''}, not nac_factor/N (v.Z_i)_a (v.Z_j)_b / (v.eps.v)", line=line, sample={"vector": qname, "element": sample})
        rep.instance("R08a", DYN, "get_dynmat_want", f"charge_sum[i, j][a][b] with v = {qname}: degree 0 in v for all 9 (a, b)", not bad_deg,
                     f"scaling {qname} changes the addend for (a, b) in {bad_deg}: the zone-centre limit depends on the length of the direction", line=line)
        rep.instance("R08a", DYN, "get_dynmat_want", f"charge_sum[i, j][a][b] with v = {qname}: bilinear in the Born charges for all 9 (a, b)", not bad_born,
                     f"the addend is not proportional to Z_i Z_j for (a, b) in {bad_born}: zero Born charges do not switch the correction off", line=line, nontrivial=False)
    # which vector is used where (all paths through the function): the direction at the zone centre when one is given,
    # no correction at the zone centre without one, q itself everywhere else whether or not a direction is given
    want_o = {(True, True): {dirvec}, (True, False): {None}, (False, True): {qvec}, (False, False): {qvec}}
    wrong = {k_: v_ for k_, v_ in outcomes.items() if v_ != want_o[k_]}
    missing = [k_ for k_ in want_o if k_ not in outcomes]
    def cls(k_):
        return ("|q| below the tolerance" if k_[0] else "|q| above the tolerance") + (", direction given" if k_[1] else ", no direction")
    rep.instance("R08a", DYN, "get_dynmat_want", f"vector of the non-analytical term on every path ({len(allp)} paths): " + "; ".join(f"{cls(k_)}: {sorted(map(str, outcomes.get(k_, [])))}" for k_ in want_o), not wrong and not missing,
                 "; ".join(f"for {cls(k_)} the term is built from {sorted(map(str, v_))} instead of {sorted(map(str, want_o[k_]))}" for k_, v_ in wrong.items()) + ("; no path for " + ", ".join(cls(k_) for k_ in missing) if missing else "") + ": the direction replaces q only in the limit q -> 0; at finite q the term (and with it D(q), its Hermiticity relations between q and -q and its G-periodicity) must be that of q itself", line=tu.line(want_fn))
    # ---- R08c ------------------------------------------------------------
    gd = tu.functions.get("get_dm")
    if gd is None:
        raise AnalysisError("anchor vanished: get_dm")
    # the operand added to the force-constant element: every name it mentions
    addends = []
    for x in cast.walk(gd):
        if x.get("kind") == "BinaryOperator" and x.get("opcode") == "+":
            a_, b_ = cast.kids(x)
            ta, tb = cast.text(a_), cast.text(b_)
            if "charge_sum" in tb and "charge_sum" not in ta and "fc[" in ta:
                addends.append(b_)
            elif "charge_sum" in ta and "charge_sum" not in tb and "fc[" in tb:
                addends.append(a_)
    if not addends:
        raise AnalysisError("R08c: get_dm no longer adds charge_sum to the force-constant element")
    subs_names = set()
    for ad in addends:
        subs_names |= {y["referencedDecl"]["name"] for y in cast.walk(ad) if y.get("kind") == "DeclRefExpr"}
    params = [p["name"] for p in cast.params(gd)]
    # by role: the image is the argument that get_dynmat_ij fills with the variable of its loop over the supercell
    # atoms; everything computed from it inside get_dm (data flow through assignments) is tied to the image
    gij = tu.functions.get("get_dynmat_ij")
    if gij is None:
        raise AnalysisError("anchor vanished: get_dynmat_ij")
    image_param = None
    for lp in cast.walk(gij):
        if lp.get("kind") != "ForStmt":
            continue
        calls_ = [y for y in cast.walk(lp) if y.get("kind") == "CallExpr" and cast.callee_name(y) == "get_dm"]
        conds = [y for y in cast.kids(lp) if y.get("kind") == "BinaryOperator" and y.get("opcode") in ("<", "<=")]
        if not calls_ or not conds:
            continue
        lv = cast.ref_name(cast.strip(cast.kids(conds[0])[0]))
        for pos, a_ in enumerate(cast.call_args(calls_[0])):
            if cast.ref_name(cast.strip(a_)) == lv and pos < len(params):
                image_param = params[pos]
    if image_param is None:
        raise AnalysisError("R08c: the image loop of get_dynmat_ij no longer hands its variable to get_dm")
    tainted = {image_param}
    changed = True
    while changed:
        changed = False
        for x in cast.walk(gd):
            if x.get("kind") in ("BinaryOperator", "CompoundAssignOperator") and (x.get("opcode") == "=" or x.get("kind") == "CompoundAssignOperator"):
                l_, r_ = cast.kids(x)
                base = [y["referencedDecl"]["name"] for y in cast.walk(l_) if y.get("kind") == "DeclRefExpr"][:1]
                used = {y["referencedDecl"]["name"] for y in cast.walk(r_) if y.get("kind") == "DeclRefExpr"}
                if base and base[0] not in tainted and used & tainted:
                    tainted.add(base[0])
                    changed = True
    image_vars = subs_names & tainted
    rep.instance("R08c", DYN, "get_dm", f"addend '{core.norm(cast.text(addends[0]), 60)}' mentions {sorted(subs_names)}; tied to the image: {sorted(tainted)}", not image_vars,
                 f"the Wang addend depends on {sorted(image_vars)} (the supercell atom or its lattice vectors): it differs between the images of one primitive atom, so it no longer cancels in the Fourier sum at commensurate q", line=tu.line(gd))
    pw = core.find_def(PYDM, "DynamicalMatrixWang._run_py_Wang_force_constants")
    adds = [a_ for a_ in ast.walk(pw) if isinstance(a_, ast.AugAssign) and isinstance(a_.op, ast.Add) and core.src(a_.target).startswith("fc[")]
    if not adds:
        raise AnalysisError("R08c: the Python Wang addend vanished")
    defs = {core.src(st.targets[0]): core.src(st.value) for st in ast.walk(pw) if isinstance(st, ast.Assign) and isinstance(st.targets[0], ast.Name)}
    loopvars = [core.src(lp.target) for lp in ast.walk(pw) if isinstance(lp, ast.For)]
    used = {x.id for x in ast.walk(adds[0].value) if isinstance(x, ast.Name)}
    direct = used & set(loopvars)
    through_map = all("_s2pp_map[" in defs.get(u, "") or u in ("nac_q", "N") for u in used)
    rep.instance("R08c", PYDM, "DynamicalMatrixWang._run_py_Wang_force_constants", core.norm(core.src(adds[0]), 70), not direct and through_map,
                 "the Python Wang addend is not indexed by the primitive atoms of the pair only", line=adds[0].lineno)
    # ---- R08b ------------------------------------------------------------
    gcs = core.find_def(PYDM, "DynamicalMatrixWang._get_charge_sum")
    tr = symalg.OpenPyTranslator(where="_get_charge_sum")
    env = tr.summary(gcs)
    A = env.get("A")
    okA = A is not None and symalg.same(A, symalg.open_expr("np.dot(q, born)"))[0]
    rep.instance("R08b", PYDM, "DynamicalMatrixWang._get_charge_sum", "A = np.dot(q, born): q contracts Born axis 1 (as born[i][k][a] q[k] in the kernel)", okA,
                 "the Python fallback contracts q with a different axis of the Born tensor than the compiled kernel", line=gcs.lineno)
    outs = [st for st in ast.walk(gcs) if isinstance(st, ast.Assign) and isinstance(st.targets[0], ast.Subscript) and core.src(st.targets[0].value) == "nac_q"]
    ok_outer = len(outs) == 1 and symalg.same(symalg.open_expr(core.src(outs[0].value)), symalg.open_expr("np.outer(A[i], A[j])"))[0] and core.src(outs[0].targets[0].slice).replace(" ", "") in ("i,j", "(i,j)")
    rep.instance("R08b", PYDM, "DynamicalMatrixWang._get_charge_sum", core.norm(core.src(outs[0]), 60) if outs else "<vanished>", ok_outer, "the pair addend is not the outer product (q.Z_i)(q.Z_j)", line=gcs.lineno)
    gcf = core.find_def(PYDM, "DynamicalMatrixWang._get_constant_factor")
    rets = [r.value for r in ast.walk(gcf) if isinstance(r, ast.Return)]
    ok_c = len(rets) == 1 and symalg.same(symalg.open_expr(core.src(rets[0])), symalg.open_expr("unit_conversion * 4.0 * np.pi / volume / np.dot(q.T, np.dot(dielectric, q))"))[0]
    rep.instance("R08b", PYDM, "DynamicalMatrixWang._get_constant_factor", core.norm(core.src(rets[0]), 80) if rets else "<vanished>", ok_c, "the constant is not unit 4 pi / V / (q.eps.q)", line=gcf.lineno)
    okN = symalg.same(symalg.open_expr(core.src(adds[0].value)), symalg.open_expr("nac_q[p1, p2] / N"))[0] and "len(self._scell) // len(self._pcell)" in defs.get("N", "")
    rep.instance("R08b", PYDM, "DynamicalMatrixWang._run_py_Wang_force_constants", f"{core.norm(core.src(adds[0]), 50)} with N = {defs.get('N')}", okN, "the addend is not divided by the number of primitive cells in the supercell", line=adds[0].lineno)
    # ---- R08d ------------------------------------------------------------
    gdd = tu.functions.get("get_dd")
    if gdd is None:
        raise AnalysisError("anchor vanished: get_dd")
    # the loop over G that fills KK, executed for a generic g with and without a direction; the cells of KK[g] are
    # indicator-weighted mixtures of the zone-centre case (|G + q| below the tolerance) and the generic case
    gloops = [x for x in cast.kids(cast.body(gdd)) if x.get("kind") == "ForStmt" or str(x.get("kind", "")).startswith("OMP")]
    gl = None
    for x in gloops:
        for y in ([x] if x.get("kind") == "ForStmt" else [z for z in cast.walk(x) if z.get("kind") == "ForStmt"][:1]):
            if any(z.get("kind") in ("BinaryOperator",) and z.get("opcode") == "=" and cast.text(cast.kids(z)[0]).startswith("KK[") for z in cast.walk(y)):
                gl = gl or y
    if gl is None:
        raise AnalysisError("R08d: the loop of get_dd that fills KK vanished")
    body_g = [x for x in gl.get("inner", []) if isinstance(x, dict) and x.get("kind")][-1]
    body_stmts = cast.kids(body_g) if body_g.get("kind") == "CompoundStmt" else [body_g]
    g = sp.Symbol("g", integer=True)
    nvec = sp.Function("q_direction_cart")
    den_n = sum(nvec(p) * eps(p, q) * nvec(q) for p in range(3) for q in range(3))

    def kk_cells(with_direction):
        ex_ = celem.ElemExec(tu, where=DYN, nonnull_pointers={"q_direction_cart"} if with_direction else (), null_pointers=() if with_direction else {"q_direction_cart"})
        ex_.ignore_continue = True
        st_ = celem.State(ex_, "get_dd", {"g": g, "tolerance": sp.Symbol("tolerance", positive=True), "L2": sp.Symbol("L2", positive=True), "lambda": sp.Symbol("lambda", positive=True)}, {}, 0)
        st_.local_arrays |= {"KK", "q_K"}
        st_.block(body_stmts)
        return st_

    def at(expr, zone_centre):
        """the value in the zone-centre case / the generic case: every indicator of the tolerance test set to 1 / 0"""
        reps = {}
        for f_ in expr.atoms(sp.Function):
            nm_ = getattr(f_.func, "__name__", "")
            if nm_ in ("ind_gt", "ind_ge"):
                reps[f_] = sp.Integer(1 if zone_centre else 0)
        return sp.simplify(expr.subs(reps))

    stt = kk_cells(True)
    bad_kk = []
    for a in range(3):
        for b in range(3):
            v = at(stt.cell("KK", g, a, b), True)
            if not (eq0(v - nvec(a) * nvec(b) / den_n) and eq0(_scaled(v, "q_direction_cart", s) - v)):
                bad_kk.append((a, b, v))
    rep.instance("R08d", DYN, "get_dd", "KK[g][a][b] at G + q = 0 with direction n == n_a n_b / (n.eps.n) for all 9 (a, b)", not bad_kk,
                 f"the zone-centre term of the reciprocal sum is {core.norm(str(bad_kk[0][2]), 160) if bad_kk else ''} for (a, b) = {bad_kk[0][:2] if bad_kk else ''}, not n_a n_b/(n.eps.n): it depends on the length of the direction (e.g. a Gaussian damping factor evaluated at the un-normalised direction), so the LO-TO term at Gamma is not the q -> 0 limit", line=tu.line(gdd))
    st0 = kk_cells(False)
    rep.instance("R08d", DYN, "get_dd", "KK[g] = 0 at G + q = 0 without a direction", all(at(st0.cell("KK", g, a, b), True) == 0 for a in range(3) for b in range(3)), "the G + q = 0 term is not dropped when no direction is given (the sum over G used for the q = 0 on-site term)", line=tu.line(gdd))
    # bilinearity of multiply_borns and who writes dd
    mb = ex.function("multiply_borns_at_ij", scalars={"i": i, "j": j, "num_patom": n})
    ddf, ddin, Zf = sp.Function("dd"), sp.Function("dd_in"), sp.Function("born")
    bad_mb = []
    for a in range(3):
        for b in range(3):
            adr = sp.expand(i * n * 9 + a * n * 3 + j * 3 + b)
            for c_ in (0, 1):
                got = mb.cell("dd", adr, c_)
                want = ddf(adr, c_) + sum(Zf(i, a2, a) * Zf(j, b2, b) * ddin(sp.expand(i * n * 9 + a2 * n * 3 + j * 3 + b2), c_) for a2 in range(3) for b2 in range(3))
                if sp.expand(got - want) != 0:
                    bad_mb.append((a, b, c_))
    written = {tuple(str(x) for x in pat) for pat, _, _ in mb.cells.get("dd", [])}
    rep.instance("R08d", DYN, "multiply_borns_at_ij", "dd[i,a,j,b] += sum_{a'b'} Z_i[a'][a] Z_j[b'][b] dd_in[i,a',j,b'] for all 9 (a, b), real and imaginary part; 18 cells written", not bad_mb and len(written) == 18,
                 f"the Born-charge dressing is not the documented bilinear form for (a, b, re/im) in {bad_mb[:4]} ({len(written)} cells written)", line=tu.line(tu.functions["multiply_borns_at_ij"]))
    # one G point's contribution: dd_part[i,a,j,b] += KK[a][b] e^{2 pi i G.(r_i - r_j)}
    tu_pi = cast.load(DYN, symbolize=("PI",))
    ex_pi = celem.ElemExec(tu_pi, where=DYN, consts={"PI": sp.pi})
    dg = ex_pi.function("get_dd_at_g", scalars={"i": i, "j": j, "num_patom": n})
    ddp, KKf, posf, Gf = sp.Function("dd_part"), sp.Function("KK"), sp.Function("pos"), sp.Function("G")
    phase = 2 * sp.pi * sum((posf(i, k_) - posf(j, k_)) * Gf(k_) for k_ in range(3))
    bad_g = []
    for a in range(3):
        for b in range(3):
            adr = sp.expand(i * n * 9 + a * n * 3 + j * 3 + b)
            for c_, trig in ((0, sp.cos), (1, sp.sin)):
                got = dg.cell("dd_part", adr, c_)
                want = ddp(adr, c_) + KKf(a, b) * trig(phase)
                if not celem.same(got, want):
                    bad_g.append((a, b, c_))
    wr = {tuple(str(x) for x in pat) for pat, _, _ in dg.cells.get("dd_part", [])}
    rep.instance("R08d", DYN, "get_dd_at_g", "dd_part[i,a,j,b] += KK[a][b] (cos, sin)(2 pi G.(r_i - r_j)) for all 9 (a, b); 18 cells written", not bad_g and len(wr) == 18,
                 f"the contribution of one G point is not KK[a][b] e^(2 pi i G.(r_i - r_j)) for (a, b, re/im) in {bad_g[:4]} ({len(wr)} cells written)", line=tu.line(tu.functions["get_dd_at_g"]))
    rd = tu.functions.get("dym_get_recip_dipole_dipole")
    writers = [cast.callee_name(c) for c in cast.walk(rd) if c.get("kind") == "CallExpr" and cast.call_args(c) and cast.ref_name(cast.strip(cast.call_args(c)[0])) == "dd"]
    direct_w = [cast.text(cast.kids(x)[0]) for x in cast.walk(rd) if x.get("kind") in ("BinaryOperator", "CompoundAssignOperator") and x.get("opcode") in ("=", "+=", "-=", "*=") and cast.text(cast.kids(x)[0]).startswith("dd[")]
    ops = {x.get("opcode") for x in cast.walk(rd) if x.get("kind") in ("BinaryOperator", "CompoundAssignOperator") and x.get("opcode") in ("=", "+=", "-=", "*=") and cast.text(cast.kids(x)[0]).startswith("dd[")}
    rep.instance("R08d", DYN, "dym_get_recip_dipole_dipole", f"dd is filled by {writers} (+ zero-initialisation, subtraction of dd_q0, overall factor: {sorted(ops)})", writers == ["multiply_borns"] and ops <= {"=", "-=", "*="},
                 "a term enters the dipole-dipole matrix without passing through the Born-charge dressing", line=tu.line(rd))
    rep.assume("R08d: dd_q0 is the q = 0 sum produced by dym_get_recip_dipole_dipole_q0 from the same multiply_borns (checked for bilinearity only)")
    rep.note("Not decided: cancellation of the Gonze-Lee reciprocal sum at commensurate q (lattice-sum identity) and its precision; eigenvalues.")


def _r08e(rep):
    fn = core.find_def(PYDM, "DynamicalMatrixGL.make_Gonze_nac_dataset")
    d2f = None
    for st in ast.walk(fn):
        if isinstance(st, ast.Assign) and isinstance(st.value, ast.Call) and core.src(st.value.func) == "DynmatToForceConstants" and isinstance(st.targets[0], ast.Name):
            d2f = st.targets[0].id
    if d2f is None:
        raise AnalysisError("R08e: DynmatToForceConstants object vanished from make_Gonze_nac_dataset")
    attr = f"{d2f}.commensurate_points"
    label = {attr: "as generated"}
    uses = []  # (what, label, node)

    def lab(e, loopenv):
        t = core.src(e)
        if t in loopenv:
            return loopenv[t]
        if t in label:
            return label[t]
        if isinstance(e, ast.Call) and core.src(e.func) in ("np.array", "np.asarray") and e.args:
            return lab(e.args[0], loopenv)
        return None

    def visit(stmts, loopenv):
        for st in stmts:
            if isinstance(st, ast.Assign):
                scan(st.value, loopenv)
                t = core.src(st.targets[0])
                v = st.value
                if "shortest_qpoints" in core.src(v):
                    label[t] = "first-BZ images"
                else:
                    lv = lab(v, loopenv)
                    if lv is not None:
                        label[t] = lv
                    elif t in label and t != attr:
                        del label[t]
            elif isinstance(st, ast.AugAssign):
                scan(st.value, loopenv)
            elif isinstance(st, ast.Expr):
                scan(st.value, loopenv)
            elif isinstance(st, ast.For):
                it = st.iter
                if isinstance(it, ast.Call) and core.src(it.func) == "enumerate" and it.args:
                    src_l = lab(it.args[0], loopenv)
                    tg = st.target.elts[1] if isinstance(st.target, ast.Tuple) and len(st.target.elts) == 2 else None
                else:
                    src_l = lab(it, loopenv)
                    tg = st.target
                env2 = dict(loopenv)
                if tg is not None and src_l is not None:
                    env2[core.src(tg)] = src_l
                visit(st.body, env2)
            elif isinstance(st, ast.If):
                scan(st.test, loopenv)
                visit(st.body, loopenv)
                visit(st.orelse, loopenv)
            elif isinstance(st, (ast.Try, ast.With)):
                visit(st.body, loopenv)

    def scan(e, loopenv):
        for c in [x for x in ast.walk(e) if isinstance(x, ast.Call)]:
            f = core.src(c.func)
            if f in ("self._run", "self.run") and c.args:
                uses.append(("dynamical matrix evaluated", lab(c.args[0], loopenv), c))
            elif f == "run_dynamical_matrix_solver_c" and len(c.args) >= 2:
                uses.append(("dynamical matrices evaluated", lab(c.args[1], loopenv), c))
            elif f == "self._get_Gonze_dipole_dipole" and c.args:
                uses.append(("dipole-dipole term subtracted", lab(c.args[0], loopenv), c))
            elif f == f"{d2f}.run":
                uses.append(("inverse transform", label.get(attr), c))

    visit(fn.body, {})
    kinds = {u[0].split()[0] for u in uses}
    if not ({"dipole-dipole", "inverse"} <= kinds and ({"dynamical"} & kinds)):
        raise AnalysisError(f"R08e: consumers of the commensurate points not all found in make_Gonze_nac_dataset ({sorted(kinds)})")
    if any(u[1] is None for u in uses):
        rep.unknown("R08e: the point array of " + ", ".join(u[0] for u in uses if u[1] is None) + " is not one of the tracked arrays")
        return
    labs = {u[1] for u in uses}
    shown = "; ".join(f"{u[0]} at the points {u[1]}" for u in uses)
    rep.instance("R08e", PYDM, "DynamicalMatrixGL.make_Gonze_nac_dataset", shown, len(labs) == 1,
                 f"{shown}: in phonopy's phase convention D(q+G)_ij = D(q)_ij e^(2 pi i G.(tau_j - tau_i)), so mixing representatives gives short-range force constants with wrong inter-sublattice phases, and the corrected dynamical matrix differs from the uncorrected one at commensurate q", line=uses[0][2].lineno)




_run_main = run


def run(rep: core.Report):
    _run_main(rep)


def _r08h(rep):
    """What is compared with the zone-centre tolerance is a length (degree 1 in q), in Python as in the kernels."""
    rep.rule("R08h", "zone-centre switch: the quantity compared with Q_DIRECTION_TOLERANCE is homogeneous of degree 1 in the q-point / the direction (a Cartesian length: norm, or sqrt of a sum of squares), as in the compiled drivers, which compare sqrt(q.q) with the same 1e-5; a squared length compared with the un-squared tolerance widens the zone to |q| < 3e-3 and the Python route returns the uncorrected matrix where the kernels and the documentation apply the correction", 2)

    def degree(e, env, depth=0):
        """degree in q of a Python expression; None when it cannot be told"""
        if isinstance(e, ast.Name):
            if e.id in env:
                v = env[e.id]
                return v if not isinstance(v, ast.AST) else (degree(v, env, depth + 1) if depth < 6 else None)
            return 0
        if isinstance(e, ast.Constant):
            return 0
        if isinstance(e, ast.Attribute):
            return 0 if core.src(e.value) in ("self", "np") or e.attr in ("T",) and degree(e.value, env, depth) == 0 else (degree(e.value, env, depth) if e.attr == "T" else 0)
        if isinstance(e, ast.IfExp):
            a, b = degree(e.body, env, depth), degree(e.orelse, env, depth)
            return a if a == b else None
        if isinstance(e, ast.UnaryOp):
            return degree(e.operand, env, depth)
        if isinstance(e, ast.BinOp):
            a, b = degree(e.left, env, depth), degree(e.right, env, depth)
            if a is None or b is None:
                return None
            if isinstance(e.op, (ast.Mult, ast.MatMult)):
                return a + b
            if isinstance(e.op, ast.Div):
                return a - b
            if isinstance(e.op, (ast.Add, ast.Sub)):
                return a if a == b else None
            if isinstance(e.op, ast.Pow) and isinstance(e.right, ast.Constant) and isinstance(e.right.value, (int, float)):
                return a * e.right.value
            return None
        if isinstance(e, ast.Subscript):
            return degree(e.value, env, depth)
        if isinstance(e, ast.Call):
            f = core.src(e.func)
            if f in ("np.linalg.norm", "abs", "np.abs", "np.array", "np.asarray", "float") and e.args:
                return degree(e.args[0], env, depth)
            if f in ("np.dot", "np.vdot", "np.inner") and len(e.args) == 2:
                a, b = degree(e.args[0], env, depth), degree(e.args[1], env, depth)
                return None if a is None or b is None else a + b
            if f in ("np.sqrt", "math.sqrt") and e.args:
                a = degree(e.args[0], env, depth)
                return None if a is None else a / 2
            if f in ("np.sum", "sum") and e.args:
                return degree(e.args[0], env, depth)
            if isinstance(e.func, ast.Attribute) and e.func.attr == "sum":
                return degree(e.func.value, env, depth)
            ds = [degree(a_, env, depth) for a_ in e.args] + [degree(k_.value, env, depth) for k_ in e.keywords if k_.arg != "dtype" and k_.arg != "order"]
            if isinstance(e.func, ast.Attribute) and not core.src(e.func.value).startswith(("np", "math")):
                ds.append(degree(e.func.value, env, depth))
            return 0 if all(d_ == 0 for d_ in ds) else None
        return None

    n = 0
    for rel, qn, qnames in ((PYDM, "DynamicalMatrixNAC.run", ("q", "q_direction")), ("phonopy/harmonic/derivative_dynmat.py", "DerivativeOfDynamicalMatrix._run_c", ("q", "q_direction"))):
        fn = core.find_def(rel, qn)
        env = {a.arg: 1 for a in fn.args.args if a.arg in qnames}
        for st in ast.walk(fn):
            if isinstance(st, ast.Assign) and len(st.targets) == 1 and isinstance(st.targets[0], ast.Name) and st.targets[0].id not in env:
                env[st.targets[0].id] = st.value
        for c in ast.walk(fn):
            if isinstance(c, ast.Compare) and len(c.ops) == 1 and any("Q_DIRECTION_TOLERANCE" in core.src(x) for x in (c.left, c.comparators[0])):
                other = c.comparators[0] if "Q_DIRECTION_TOLERANCE" in core.src(c.left) else c.left
                # a name assigned on both arms of a test (q_norm): all assignments must agree
                vals = [st.value for st in ast.walk(fn) if isinstance(st, ast.Assign) and isinstance(other, ast.Name) and isinstance(st.targets[0], ast.Name) and st.targets[0].id == other.id] if isinstance(other, ast.Name) else [other]
                degs = {degree(v, env) for v in (vals or [other])}
                n += 1
                rep.instance("R08h", rel, qn, f"{core.norm(core.src(c), 70)} : degree {sorted(map(str, degs))} in q", degs == {1},
                             f"'{core.norm(core.src(c), 70)}' compares a quantity of degree {sorted(map(str, degs))} in q with the tolerance that the kernels apply to the length |q|: for a squared length the switch happens at |q| < sqrt(1e-5) ~ 3e-3 instead of 1e-5, and a direction or q-point of that size gets no non-analytical term", line=c.lineno)
    if n < 2:
        raise AnalysisError(f"R08h: only {n} comparisons with Q_DIRECTION_TOLERANCE found in the Python routes")


def _r08g(rep):
    """The q = 0 on-site term of the Gonze-Lee method is Hermitian in its Cartesian indices."""
    rep.rule("R08g", "Gonze-Lee q = 0 term: dd_q0[i][a][b] = 1/2 (sum_j T[i,a,j,b] + conj(sum_j T[i,b,j,a])) with T the Born-dressed reciprocal sum at q = 0 (closed form of all 9 x 2 cells by element-wise symbolic execution of the loops after multiply_borns): the 3x3 block of every atom is Hermitian, so what is subtracted when the short-range force constants are built (and symmetrised there) is what is added back at every q", 18)
    fn = tu_fn = None
    tu = cast.load(DYN)
    fn = tu.functions.get("dym_get_recip_dipole_dipole_q0")
    if fn is None:
        raise AnalysisError("anchor vanished: dym_get_recip_dipole_dipole_q0")
    stmts = cast.kids(cast.body(fn))
    calls = [k for k, st in enumerate(stmts) if st.get("kind") == "CallExpr" and cast.callee_name(st) == "multiply_borns"]
    if len(calls) != 1:
        raise AnalysisError("R08g: dym_get_recip_dipole_dipole_q0 no longer dresses the reciprocal sum by one call of multiply_borns")
    src_arr = cast.ref_name(cast.call_args(stmts[calls[0]])[0])
    tail = [st for st in stmts[calls[0] + 1:] if st.get("kind") == "ForStmt"]
    n = sp.Symbol("num_patom", integer=True, positive=True)
    ex = celem.ElemExec(tu, where=DYN)
    st = celem.State(ex, "dym_get_recip_dipole_dipole_q0", {"num_patom": n}, {"dd_q0": "dd_q0", src_arr: "T"}, 0)
    st.block(tail)
    i, j = sp.Symbol("i", integer=True), sp.Symbol("jj", integer=True)
    T = sp.Function("T")

    def ssum(a, b, c):
        return sp.Sum(T(i * n * 9 + a * n * 3 + j * 3 + b, c), (j, 0, n - 1))

    for a in range(3):
        for b in range(3):
            for c, sign in ((0, 1), (1, -1)):
                got = st.cell("dd_q0", i * 9 + a * 3 + b, c)
                want = (ssum(a, b, c) + sign * ssum(b, a, c)) / 2
                ok = celem.same(got, want)
                rep.instance("R08g", DYN, "dym_get_recip_dipole_dipole_q0", f"dd_q0[i][{a}][{b}] ({'real' if c == 0 else 'imaginary'} part) = 1/2 (sum_j T[i,{a},j,{b}] {'+' if sign > 0 else '-'} sum_j T[i,{b},j,{a}])", bool(ok[0]) if isinstance(ok, tuple) else bool(ok),
                             f"the cell is {core.norm(str(got), 200)}: the on-site term is not symmetrised in its Cartesian indices (the partner of T[i,a,j,b] is T[i,b,j,a], not its conjugate T[j,b,i,a]); for sites whose symmetry allows an antisymmetric part the term added back at every q differs from the symmetrised one that was subtracted", line=tu.line(fn), nontrivial=(c == 0))


def _r08f(rep):
    """The damping of the Gonze-Lee reciprocal sum is derived from the radius the G list is built with."""
    rep.rule("R08f", "Gonze-Lee parameters: the default Lambda makes the Gaussian factor 1e-10 at the edge of the list of reciprocal vectors, i.e. it is computed from the same cut-off radius that is handed to _get_G_list (value provenance through locals and attributes); computed from another radius (the default one while the user's smaller G_cutoff builds the list) the truncated sum is not periodic over G and the dipole term subtracted at one representative of a commensurate point differs from the one added at another", 1)
    fn = core.find_def(PYDM, "DynamicalMatrixGL._set_nac_params")
    asg = {}
    for st in ast.walk(fn):
        if isinstance(st, ast.Assign) and len(st.targets) == 1:
            asg.setdefault(core.src(st.targets[0]), []).append(st.value)

    def res(e, depth=0):
        while depth < 8 and core.src(e) in asg and len(asg[core.src(e)]) == 1 and isinstance(asg[core.src(e)][0], (ast.Name, ast.Attribute)):
            e = asg[core.src(e)][0]
            depth += 1
        return core.src(e)

    glist = [c for c in ast.walk(fn) if isinstance(c, ast.Call) and core.src(c.func).endswith("_get_G_list") and c.args]
    lam = [st for st in ast.walk(fn) if isinstance(st, ast.Assign) and core.src(st.targets[0]) == "self._Lambda" and not (isinstance(st.value, ast.Subscript) or (isinstance(st.value, ast.Call) and "nac_params" in core.src(st.value)))]
    if len(glist) != 1 or len(lam) != 1:
        raise AnalysisError(f"R08f: DynamicalMatrixGL._set_nac_params: {len(glist)} calls of _get_G_list, {len(lam)} default assignments of self._Lambda")
    used = res(glist[0].args[0])
    # radii the default Lambda depends on: names / attributes raised to the power 2 in the expression, through locals
    radii = set()

    def collect(e, depth=0):
        for x in ast.walk(e):
            if isinstance(x, ast.BinOp) and isinstance(x.op, ast.Pow) and isinstance(x.right, ast.Constant) and x.right.value == 2 and not isinstance(x.left, ast.Constant):
                radii.add(res(x.left) if isinstance(x.left, (ast.Name, ast.Attribute)) else core.norm(core.src(x.left), 60))
            if isinstance(x, ast.Name) and x.id in asg and depth < 5:
                for v in asg[x.id]:
                    collect(v, depth + 1)

    collect(lam[0].value)
    if not radii:
        raise AnalysisError("R08f: the default Lambda no longer depends on a squared cut-off radius")
    rep.instance("R08f", PYDM, "DynamicalMatrixGL._set_nac_params", f"default Lambda from {sorted(radii)}; G list built with {used}", radii == {used},
                 f"the default Lambda is computed from {sorted(radii)} while the list of reciprocal vectors is built with '{used}': with a user-supplied G_cutoff and no Lambda the Gaussian factor at the edge of the list is not the intended 1e-10", line=lam[0].lineno)


def selftest():
    V = []
    b = lambda name, file, old, new, rule, expect="", **kw: V.append(dict(name=name, kind="break", file=file, old=old, new=new, rule=rule, expect=expect, **kw))
    n = lambda name, file, old, new, **kw: V.append(dict(name=name, kind="neutral", file=file, old=old, new=new, **kw))
    V.append(dict(name="default Lambda from the default radius", kind="break", rule="R08f", expect="_set_nac_params", file=PYDM, old="            exp_cutoff = 1e-10\n            GeG = self._G_cutoff**2 * np.trace(self._dielectric) / 3", new="            exp_cutoff = 1e-10\n            G_cutoff = (3 * self._num_G_points / (4 * np.pi) / self._pcell.volume) ** (1.0 / 3)\n            GeG = G_cutoff**2 * np.trace(self._dielectric) / 3"))
    b("zone-centre test on the squared length", PYDM, "            q_norm = np.linalg.norm(self._rec_lat @ q)\n", "            q_norm = (self._rec_lat @ q) @ (self._rec_lat @ q)\n", "R08h", "DynamicalMatrixNAC.run")
    b("q = 0 term: imaginary parts added instead of subtracted in the Cartesian symmetrisation", DYN, "                dd_q0[adrs][1] -= dd_q0[adrsT][1];", "                dd_q0[adrs][1] += dd_q0[adrsT][1];", "R08g", "dym_get_recip_dipole_dipole_q0")
    b("zone-centre factor normalised by |n| instead of n.eps.n", DYN, "                nac_factor / n / get_dielectric_part(q_dir_cart, dielectric),", "                nac_factor / n / sqrt(get_dielectric_part(q_dir_cart, dielectric)),", "R08a", "degree 0")
    b("charge sum contracts the other Born axis", DYN, "                q_born[i][j] += q_cart[k] * born[i][k][j];", "                q_born[i][j] += q_cart[k] * born[i][j][k];", "R08a", "closed form")
    b("wang addend depends on the image", DYN, "                           charge_sum[i * num_patom + j][l][m]);", "                           charge_sum[i * num_patom + j][l][m] / (1 + k % 2));", "R08c", "get_dm")
    b("python charge sum contracts the other axis", PYDM, "        A = np.dot(q, born)", "        A = np.dot(born, q)", "R08b", "_get_charge_sum")
    b("python constant loses the dielectric denominator", PYDM, "            unit_conversion * 4.0 * np.pi / volume / np.dot(q.T, np.dot(dielectric, q))", "            unit_conversion * 4.0 * np.pi / volume / np.dot(q.T, q)", "R08b", "_get_constant_factor")
    b("gonze zone-centre term not normalised", DYN, "                        KK[g][i][j] = q_direction_cart[i] *\n                                      q_direction_cart[j] / dielectric_part;", "                        KK[g][i][j] = q_direction_cart[i] *\n                                      q_direction_cart[j];", "R08d", "get_dd")
    b("born dressing uses one charge only", DYN, "                    zz = born[i][m][k] * born[j][n][l];", "                    zz = born[i][m][k];", "R08d", "multiply_borns_at_ij")
    V.append(dict(name="gonze dataset evaluated at unfolded points", kind="break", rule="R08e", expect="make_Gonze_nac_dataset", edits=[
        dict(file=PYDM, old="        d2f.commensurate_points = comm_points_in_BZ\n\n        dynmat = []", new="        dynmat = []"),
        dict(file=PYDM, old="        for i, q_red in enumerate(comm_points_in_BZ):", new="        for i, q_red in enumerate(d2f.commensurate_points):"),
        dict(file=PYDM, old="        d2f.dynamical_matrices = dynmat\n        d2f.run()", new="        d2f.commensurate_points = comm_points_in_BZ\n        d2f.dynamical_matrices = dynmat\n        d2f.run()"),
    ]))
    n("gonze loop over the attribute after the assignment", PYDM, "        for i, q_red in enumerate(comm_points_in_BZ):", "        for i, q_red in enumerate(d2f.commensurate_points):")
    n("charge sum factors reordered", DYN, "                        q_born[i][a] * q_born[j][b] * factor;", "                        factor * q_born[j][b] * q_born[i][a];")
    n("python constant reordered", PYDM, "            unit_conversion * 4.0 * np.pi / volume / np.dot(q.T, np.dot(dielectric, q))", "            4.0 * np.pi * unit_conversion / (volume * np.dot(q.T, np.dot(dielectric, q)))")
    return V
