"""R13d — bounded accesses and allocation discipline in the C kernels.

(1) every subscript into a dimension of fixed extent (local arrays, inner dimensions
    of pointer-to-array parameters) stays inside it, for reads and writes;
(2) every write into a malloc'd temporary stays inside the malloc size;
(3) every malloc is freed exactly once and no return lies between them;
(4) for every Python call site, every write of the kernel into an array argument
    stays inside the extent the Python side allocates for that argument, with the
    kernel's size parameters traced through the glue's shape(k) reads back to the
    Python shapes (decided where the allocation is visible; otherwise listed unknown).
"""

from __future__ import annotations

import ast
import re

import sympy as sp

from engine import cast, cidx, core, pyabs, symalg, xabi
from engine.core import AnalysisError

# Value ranges of integer index maps, established by the Python layer (assumptions,
# printed in the evidence).  key: C parameter name of a kernel -> (exclusive upper bound
# as an expression over the kernel's parameters, reason)
ASSUME_RANGE = {
    ("phpy_transform_dynmat_to_fc", "fc_index_map"): ("DIM:fc:0", "p2s_map (full fc: values < n_satom = fc.shape[0]) or arange(fc.shape[0]) (compact)"),
    ("phpy_distribute_fc2", "fc_indices_of_atom_list"): ("DIM:fc2:0", "row indices of the force-constant array (arange(n) or p2s_map, see distribute_force_constants)"),
    ("phpy_perm_trans_symmetrize_compact_fc", "p2s"): ("n_satom", "primitive->supercell atom indices"),
    ("phpy_perm_trans_symmetrize_compact_fc", "s2pp"): ("n_patom", "supercell->primitive-index map"),
    ("phpy_perm_trans_symmetrize_compact_fc", "perms"): ("n_satom", "atom permutations: values are supercell atom indices"),
    ("phpy_set_index_permutation_symmetry_compact_fc", "p2s"): ("n_satom", "primitive->supercell atom indices"),
    ("phpy_set_index_permutation_symmetry_compact_fc", "s2pp"): ("n_patom", "supercell->primitive-index map"),
    ("phpy_set_index_permutation_symmetry_compact_fc", "perms"): ("n_satom", "atom permutations: values are supercell atom indices"),
    ("distribute_fc2", "map_atoms"): ("num_pos", "map_atoms sends every supercell atom to a supercell atom (shape [n_pos])"),
    ("distribute_fc2", "atom_list"): ("num_pos", "atom_list holds supercell atom indices"),
}


def _nonneg(expr) -> bool:
    """expr >= 0 for all non-negative integer values of its generators (sufficient test:
    all polynomial coefficients non-negative)."""
    e = sp.expand(expr)
    if e.is_Number:
        return e >= 0
    gens = sorted(e.free_symbols | {f for f in e.atoms(sp.Function)}, key=str)
    try:
        P = sp.Poly(e, *gens)
    except sp.PolynomialError:
        return False
    return all(c >= 0 for c in P.coeffs())


def _bound(index, vars_, extra_bounds=None, lower=False):
    """max (or min) of an affine index with non-negative coefficients; floor/Mod of loop
    variables are first split into digits.  Returns sympy expr or None."""
    bounds = {v: b for v, b in vars_.items()}
    r = cidx.split_divmod(sp.expand(index), bounds)
    if r is None:
        return None
    e, nb, _ = r
    bounds.update(nb)
    if extra_bounds:
        bounds.update(extra_bounds)
    if e.atoms(sp.floor) or e.atoms(sp.Mod):
        return None
    sub = {}
    for d, (lo, hi) in bounds.items():
        if e.has(d):
            if lower:
                sub[d] = lo if lo is not None else 0
            else:
                if hi is None:
                    return None
                sub[d] = hi - 1
    try:
        P = sp.Poly(e, *[d for d in bounds if e.has(d)]) if any(e.has(d) for d in bounds) else None
    except sp.PolynomialError:
        return None
    if P is not None:
        for c in P.coeffs():
            if not _nonneg(c):
                return None  # a negative coefficient: the corner is not hi-1
    return sp.expand(e.subs(sub, simultaneous=True))


def run(rep: core.Report, an, tus):
    rep.rule("R13d.fixed", "subscripts into dimensions of fixed extent stay inside them (reads and writes; loop bounds substituted symbolically)", 90)
    rep.rule("R13d.malloc", "writes into malloc'd temporaries stay inside the allocation; each malloc is freed exactly once with no return in between", 8)
    rep.rule("R13d.extent", "kernel writes into an array argument stay inside the extent the Python call site allocates (sizes traced through the glue's shape(k) reads)", 12)

    # (1) fixed dims ------------------------------------------------------
    for tu in tus:
        for fname in tu.functions:
            s = an.summary(fname)
            if s is None:
                continue
            seen = set()
            for base, idx, dims, line, lv in s.accesses:
                for k, (i, d) in enumerate(zip(idx, dims)):
                    if d is None:
                        continue
                    key = (base, k, str(i))
                    if key in seen:
                        continue
                    seen.add(key)
                    hi = _bound(i, lv)
                    lo = _bound(i, lv, lower=True)
                    construct = f"{base}[..] axis {k} (extent {d}): subscript {_clean(i)}"
                    if hi is None or not hi.is_Integer or lo is None or not lo.is_Integer:
                        if fname == "phpy_set_smallest_vectors_sparse" and base == "smallest_vectors" and "count" in str(i):
                            rep.assume("phpy_set_smallest_vectors_sparse: slot index 'count' < 27 relies on at most 27 tied images per pair (guarded after the write by 'count > 27'; needs a symprec of the order of the cell to violate)")
                        else:
                            rep.unknown(f"{tu.rel}::{fname}: {construct}: bound not a constant ({hi})")
                        continue
                    rep.instance("R13d.fixed", tu.rel, fname, construct, 0 <= lo and hi < d,
                                 f"subscript ranges over [{lo}, {hi}] but the dimension has extent {d}: out-of-bounds access", line=line)

    # (2)(3) malloc ----------------------------------------------------------
    for tu in tus:
        for fname, fn in tu.functions.items():
            s = an.summary(fname)
            if s is None or not s.allocs:
                continue
            rets = [tu.line(x) for x in cast.walk(fn) if x.get("kind") == "ReturnStmt"]
            free_lines = {}
            for x in cast.walk(fn):
                if x.get("kind") == "CallExpr" and cast.callee_name(x) == "free":
                    nm = cast.ref_name(cast.call_args(x)[0])
                    free_lines.setdefault(nm, []).append(tu.line(x))
            for nm, (size, qt, line) in s.allocs.items():
                elem, dims, _ = cidx.type_dims(qt)
                esz = sp.Symbol(f"sizeof<{elem}>", positive=True, integer=True)
                inner = 1
                for d in dims[1:]:
                    inner *= d
                # element count: size / sizeof(elem); size may be sizeof<T[3][3]> * n
                count = None
                sz = sp.expand(size)
                for a in sz.atoms(sp.Symbol):
                    if a.name.startswith("sizeof<"):
                        t = a.name[7:-1]
                        e2, d2, _ = cidx.type_dims(t if "[" in t or "*" in t else t)
                        mult = 1
                        for m in re.findall(r"\[(\d+)\]", t):
                            mult *= int(m)
                        base_t = re.sub(r"\s*(\[\d+\])+", "", t).strip()
                        if base_t == elem:
                            count = sp.expand(sz / a * mult)
                if count is None:
                    rep.instance("R13d.malloc", tu.rel, fname, f"{nm} = malloc({_clean(size)})", False, f"allocation size is not a multiple of sizeof({elem})", line=line)
                    continue
                fl = free_lines.get(nm, [])
                between = [r for r in rets if fl and line < r < max(fl)]
                cond_alloc = _guard_of(tu, fn, line)
                cond_free = [_guard_of(tu, fn, l) for l in fl]
                ok = len(fl) == 1 and not between and cond_free[0] == cond_alloc
                rep.instance("R13d.malloc", tu.rel, fname, f"{nm} = malloc(…) is freed exactly once under the same guard ({cond_alloc or 'unconditional'})", ok,
                             f"malloc at line {line}, free at {fl} (guards {cond_free}), returns in between at {between}: leak or double free on some path", line=line)
                for w in s.writes:
                    if w.base != nm:
                        continue
                    hi = _bound(w.index, w.vars)
                    # a slot addressed by a loaded value: bounded by the value range of that index map (assumption table)
                    ix = sp.sympify(w.index)
                    if isinstance(ix, sp.core.function.AppliedUndef) and ix.func.__name__.startswith("load:") and (fname, ix.func.__name__[5:]) in ASSUME_RANGE:
                        ub_txt, why = ASSUME_RANGE[(fname, ix.func.__name__[5:])]
                        ub = sp.Symbol(ub_txt, integer=True)
                        cnt = count.subs({x: sp.Symbol(x.name, integer=True) for x in count.free_symbols})
                        ok = _nonneg(sp.expand(cnt - ub))
                        rep.assume(f"{fname}: values of {ix.func.__name__[5:]} < {ub_txt} ({why})")
                        rep.instance("R13d.malloc", tu.rel, fname, f"write {nm}[{_clean(w.index)}] (values < {ub_txt}) within malloc of {_clean(count)} elements", ok,
                                     f"the slot is addressed by a value of {ix.func.__name__[5:]}, which ranges up to {ub_txt} - 1, but only {_clean(count)} elements are allocated: for a shorter list the write (and the later read of the same slot) lands past the end of the heap block", line=w.line)
                        continue
                    if hi is None or any(str(x).startswith("?") for x in hi.free_symbols) or hi.atoms(sp.Function):
                        rep.unknown(f"{tu.rel}::{fname}: write {nm}[{_clean(w.index)}]: index is data dependent (counter or loaded value), not bounded statically")
                        continue
                    ok = _nonneg(count - (hi + 1))
                    rep.instance("R13d.malloc", tu.rel, fname, f"write {nm}[{_clean(w.index)}] within malloc of {_clean(count)} elements", ok,
                                 f"largest index {_clean(hi)} is not provably below the allocated element count {_clean(count)}", line=w.line)

    # (4) extents at Python call sites -----------------------------------------
    _extents(rep, an, tus)


def _clean(e) -> str:
    return core.norm(re.sub(r"@[A-Za-z_0-9]+:\d+", "", str(e)), 110)


def _guard_of(tu, fn, line):
    """Text of the innermost if-condition enclosing a source line (or None)."""
    best = None
    for x in cast.walk(fn):
        if x.get("kind") == "IfStmt":
            b = tu.line(x)
            eo = cast.end_offset(x)
            e = tu.line_of_offset(eo) if eo is not None else b
            if b is not None and b < line <= e:
                best = cast.text(cast.kids(x)[0])
    return best


# ---------------------------------------------------------------------------


class _DimRewriter(ast.NodeTransformer):
    """len(E) -> __dim(E, 0);  E.shape[k] -> __dim(E, k)"""

    def visit_Call(self, node):
        self.generic_visit(node)
        if isinstance(node.func, ast.Name) and node.func.id == "len" and len(node.args) == 1:
            return ast.Call(func=ast.Name(id="__dim", ctx=ast.Load()), args=[node.args[0], ast.Constant(0)], keywords=[])
        return node

    def visit_Subscript(self, node):
        self.generic_visit(node)
        if isinstance(node.value, ast.Attribute) and node.value.attr == "shape" and isinstance(node.slice, ast.Constant):
            return ast.Call(func=ast.Name(id="__dim", ctx=ast.Load()), args=[node.value.value, node.slice], keywords=[])
        return node


def _py_expr(text: str, env: dict):
    tree = ast.parse(text, mode="eval")
    tree = ast.fix_missing_locations(_DimRewriter().visit(tree))
    tr = symalg.OpenPyTranslator(where="shape")
    return tr.expr(tree.body, dict(env))


def _extents(rep, an, tus):
    glue, exported = xabi.glue_table()
    R = pyabs.Resolver()
    decided = 0
    for s in xabi.python_sites():
        fname = exported.get(s.entry)
        if not fname or fname.startswith("phpy_") or not s.call.args:
            continue
        g = glue[fname]
        kernels = [(cn, args) for cn, args, _ in g.calls if cn.startswith("phpy_")]
        if len(kernels) != 1 or len(s.call.args) != len(g.params):
            continue
        kname, kargs = kernels[0]
        summ = an.summary(kname)
        if summ is None:
            continue
        tu_k, fn_k = an.fns[kname]
        kparams = [p.get("name") for p in cast.params(fn_k)]
        fn = core.enclosing_function(s.call)
        cls = None
        cur = fn
        while cur is not None:
            cur = getattr(cur, "_parent", None)
            if isinstance(cur, ast.ClassDef):
                cls = cur
                break
        # local definitions of the calling function (for shape expressions that use locals)
        tr = symalg.OpenPyTranslator(where=s.qualname)
        try:
            import copy

            fn2 = ast.fix_missing_locations(_DimRewriter().visit(copy.deepcopy(fn))) if fn is not None else None
            env = tr.summary(fn2) if fn2 is not None else {}
        except Exception:
            env = {}
        argexpr = {}
        shapes = {}
        factor = {}
        for a, p in zip(s.call.args, g.params):
            if p.kind != "ndarray":
                continue
            try:
                a0 = a
                while True:  # dimension-preserving wrappers
                    if isinstance(a0, ast.Call) and isinstance(a0.func, ast.Attribute) and a0.func.attr == "view":
                        a0 = a0.func.value
                    elif isinstance(a0, ast.Call) and core.src(a0.func) in ("np.array", "np.ascontiguousarray", "np.asarray") and a0.args:
                        a0 = a0.args[0]
                    else:
                        break
                argexpr[p.name] = _py_expr(core.src(a0), env)
            except Exception:
                argexpr[p.name] = sp.Symbol(f"<{p.name}>")
            srcs = R.resolve(a, fn, cls)
            shp = {x.shape for x in srcs}
            if len(shp) == 1 and None not in shp and () not in shp:
                shapes[p.name] = list(shp)[0]
                factor[p.name] = 2 if all("<-complex128" in x.dtype or x.dtype == "complex128" for x in srcs) else 1

        dim_sym = {}

        def DIM(pn, k):
            return dim_sym.setdefault((pn, k), sp.Symbol(f"dim[{pn},{k}]", integer=True, nonnegative=True))

        def canon(e, depth=0):
            """Express in DIM symbols: __dim(X, k) where X is one of the argument expressions."""
            if depth > 4:
                return e
            for f in list(e.atoms(sp.Function)):
                if type(f).__name__ == "__dim" and len(f.args) == 2 and f.args[1].is_Integer:
                    for pn, ax in argexpr.items():
                        if f.args[0] == ax:
                            e = e.subs(f, DIM(pn, int(f.args[1])))
            return e

        def py_extent(pn):
            shp = shapes.get(pn)
            if shp is None:
                return None, None
            dims = []
            for t in shp:
                try:
                    dims.append(canon(_py_expr(t, env)))
                except Exception:
                    return None, None
            return dims, factor[pn]

        # equations DIM(Q,k) == python shape element k of Q
        known_dims = {}
        for pn in shapes:
            dims, fac = py_extent(pn)
            if dims is None:
                continue
            for k, dk in enumerate(dims):
                known_dims[DIM(pn, k)] = dk * (fac if k == len(dims) - 1 and fac == 2 and False else 1)

        # kernel parameter -> python-side expression
        sub = {}
        ptr_of = {}
        for kp, at in zip(kparams, kargs):
            o = g.origin.get(at)
            if o and o[0] == "shape":
                sub[cidx.psym(kp)] = DIM(o[1], o[2])
            elif o and o[0] == "data":
                ptr_of[kp] = o[1]
        # (3) the glue's cast type fixes the trailing dimensions of the Python array
        for p in g.params:
            if p.kind != "ndarray" or not p.casts or p.name not in shapes:
                continue
            inner = [int(x) for x in re.findall(r"\[(\d+)\]", p.casts[0][1] or "")]
            if not inner:
                continue
            shp = shapes[p.name]
            tail = list(shp[-len(inner):]) if len(shp) >= len(inner) else None
            fac_p = factor.get(p.name, 1)
            lits = []
            ok_tail = None
            if tail is not None and all(re.fullmatch(r"\d+", t) for t in tail):
                lits = [int(t) for t in tail]
                if fac_p == 2 and inner and inner[-1] == 2:
                    ok_tail = lits[-(len(inner) - 1):] == inner[:-1] if len(inner) > 1 else True
                else:
                    ok_tail = lits == inner
            if ok_tail is not None:
                rep.instance("R13d.extent", s.file, s.qualname, f"phonoc.{s.entry}: {p.name} cast to {p.casts[0][1]}; Python shape {shp}", ok_tail,
                             f"the glue views '{p.name}' as rows of {inner} elements but the Python array is allocated with trailing shape {tail}: every row is mis-strided", line=s.line)
        seen_rw = set()
        for w in list(summ.writes) + list(getattr(summ, "reads", [])):
            if w.base_kind != "param" or w.base not in ptr_of:
                continue
            pn = ptr_of[w.base]
            dims, fac = py_extent(pn)
            if dims is None:
                # bounded by the argument's own axes?  (sizes read from shape(k) of this very array)
                own = {cidx.psym(kp): (o[1], o[2]) for kp, at in zip(kparams, kargs) for o in [g.origin.get(at)] if o and o[0] == "shape" and o[1] == pn}
                hi0 = _bound(w.index, w.vars) if not w.index.atoms(sp.Function) else None
                if own and hi0 is not None and not any(str(x).startswith("?") for x in hi0.free_symbols):
                    pg = [p for p in g.params if p.name == pn][0]
                    inner = 1
                    for x in re.findall(r"\[(\d+)\]", (pg.casts[0][1] or "") if pg.casts else ""):
                        inner *= int(x)
                    need0 = sp.expand(hi0 + 1)
                    syms = need0.free_symbols
                    if syms and syms <= set(own):
                        prod = sp.Integer(inner)
                        axes = set()
                        for sy in syms:
                            prod *= sy
                            axes.add(own[sy][1])
                        key = (pn, w.op == "read", str(need0))
                        if key not in seen_rw and len(axes) == len(syms):
                            seen_rw.add(key)
                            okb = _nonneg(prod - need0)
                            if not okb:
                                rep.unknown(f"{s.file}::{s.qualname} phonoc.{s.entry}: {pn}: kernel touches {_clean(need0)} elements; only axes {sorted(axes)} are read by the glue and the allocation shape is not visible (trailing axes unknown)")
                            if okb:
                                rep.instance("R13d.extent", s.file, s.qualname, f"phonoc.{s.entry}: kernel {'reads' if w.op == 'read' else 'writes'} {pn}[0 .. {_clean(need0)}) <= its own axes {sorted(axes)} x {inner}", okb,
                                             f"the kernel {'reads' if w.op == 'read' else 'writes'} up to element {_clean(need0)} of '{pn}', beyond the product of the axes its sizes are read from ({_clean(prod)})", line=s.line)
                continue
            have = sp.Integer(fac)
            for dk in dims:
                have = have * dk
            extra = {}
            idx = sp.expand(w.index)
            skip = False
            for f in list(idx.atoms(sp.Function)):
                nm = type(f).__name__
                if nm.startswith("load:"):
                    key = (kname, nm[5:])
                    if key not in ASSUME_RANGE:
                        skip = True
                        break
                    ub_txt, why = ASSUME_RANGE[key]
                    if ub_txt.startswith("DIM:"):
                        _, b, k = ub_txt.split(":")
                        ub = sp.Symbol(f"extent0<{b}>", integer=True, nonnegative=True)
                        sub_ub = DIM(ptr_of.get(b, b), int(k))
                    else:
                        ub = cidx.psym(ub_txt)
                        sub_ub = None
                    d = sp.Symbol(f"val<{nm[5:]}>", integer=True, nonnegative=True)
                    idx = idx.subs(f, d)
                    extra[d] = (0, ub)
                    if sub_ub is not None:
                        sub[ub] = sub_ub
                    rep.assume(f"{kname}: values of {nm[5:]} < {ub_txt} ({why})")
                elif nm.startswith("call:"):
                    skip = True
            if skip or any(str(x).startswith("?") for x in idx.free_symbols):
                rep.unknown(f"{s.file}::{s.qualname} phonoc.{s.entry}: write {w.base}[{_clean(w.index)}] depends on a loaded value without a range assumption")
                continue
            hi = _bound(idx, w.vars, extra)
            if hi is None:
                rep.unknown(f"{s.file}::{s.qualname} phonoc.{s.entry}: write {w.base}[{_clean(w.index)}]: bound not computable")
                continue
            need = sp.expand((hi + 1).subs(sub, simultaneous=True))
            # express remaining DIM symbols through python shapes when known
            need = sp.expand(need.subs(known_dims, simultaneous=True))
            have = sp.expand(have.subs(known_dims, simultaneous=True))
            ksyms = {cidx.psym(k) for k in kparams if k}
            left = [x for x in need.free_symbols if x in ksyms]
            if left:
                rep.unknown(f"{s.file}::{s.qualname} phonoc.{s.entry}: size {left} of {kname} is not derived from a shape() read")
                continue
            ok = _nonneg(have - need)
            if not ok and not (_nonneg(need - have) and sp.expand(need - have) != 0):
                rep.unknown(f"{s.file}::{s.qualname} phonoc.{s.entry}: {pn}: needs {_clean(need)}, has {_clean(have)}: not comparable symbolically")
                continue
            decided += 1
            verb = "reads" if w.op == "read" else "writes"
            rep.instance("R13d.extent", s.file, s.qualname, f"phonoc.{s.entry}: kernel {verb} {pn}[0 .. {_clean(need)}) ; Python allocates {_clean(have)} elements", ok,
                         f"the kernel {kname} {verb} up to element {_clean(need)} of '{pn}' but the call site allocates {_clean(have)} (shape {shapes.get(pn)})", line=s.line,
                         sample={"site": f"{s.qualname} -> {s.entry}", "array": pn, "needs": _clean(need), "has": _clean(have)})
    rep.extra["extent_pairs_decided"] = decided
