"""C03 — dynamical matrix: Hermitian symmetrisation and mass propagation clauses (DESIGN §3 C03)."""

from __future__ import annotations

import ast

import sympy as sp

from engine import cast, cidx, core, symalg
from engine.core import AnalysisError

DYN = "c/dynmat.c"
DDM = "c/derivative_dynmat.c"
PYDM = "phonopy/harmonic/dynamical_matrix.py"
API = "phonopy/api_phonopy.py"


def run(rep: core.Report):
    rep.rule("R03a", "Hermitian symmetrisation post-dominates every producer of the force-constant part of D(q): the C kernel calls make_Hermitian after both the OpenMP and the serial arm and before its only return; the derivative kernel symmetrises after both arms; the Python reference stores (D + D^H)/2", 4)
    rep.rule("R03b", "make_Hermitian does what its name says: for every pair (i, j>=i) the new a' = (a + conj(b))/2 and b' = conj(a') (algebra of its loop body; loops cover j >= i for all i)", 4)
    rep.rule("R03c", "the masses setter updates primitive, supercell and unit cell through the index maps before the dynamical matrix is rebuilt", 4)
    _r03d(rep)
    tu = cast.load(DYN)
    fn = tu.functions.get("dym_get_dynamical_matrix_at_q")
    if fn is None:
        raise AnalysisError("anchor vanished: dym_get_dynamical_matrix_at_q")
    top = cast.kids(cast.body(fn))
    kinds = [s.get("kind") for s in top]
    idx_if = [i for i, s in enumerate(top) if s.get("kind") == "IfStmt" and cast.text(cast.kids(s)[0]) == "use_openmp"]
    idx_mh = [i for i, s in enumerate(top) if s.get("kind") == "CallExpr" and cast.callee_name(s) == "make_Hermitian"]
    idx_ret = [i for i, s in enumerate(top) if s.get("kind") == "ReturnStmt"]
    rets_all = [x for x in cast.walk(fn) if x.get("kind") == "ReturnStmt"]
    ok = bool(idx_if) and bool(idx_mh) and bool(idx_ret) and idx_if[0] < idx_mh[0] < idx_ret[0] and len(rets_all) == 1
    rep.instance("R03a", DYN, "dym_get_dynamical_matrix_at_q", f"top-level statements {kinds}: make_Hermitian after the use_openmp twin, before the only return", ok,
                 "make_Hermitian is not an unconditional top-level statement between the twin and the single return: some path returns an unsymmetrised matrix", line=tu.line(fn))
    if idx_mh:
        args = [cast.text(a) for a in cast.call_args(top[idx_mh[0]])]
        rep.instance("R03a", DYN, "dym_get_dynamical_matrix_at_q", f"make_Hermitian({', '.join(args)})", args == ["dynamical_matrix", "num_patom * 3"], "make_Hermitian is applied to a different array or dimension than the 3N x 3N matrix just built", line=tu.line(top[idx_mh[0]]))
    # every C producer of D(q) goes through dym_get_dynamical_matrix_at_q
    prods = []
    for name, f in tu.functions.items():
        for c in cast.walk(f):
            if c.get("kind") == "CallExpr" and cast.callee_name(c) == "get_dynmat_ij":
                prods.append(name)
    rep.instance("R03a", DYN, "get_dynmat_ij callers", f"D(q) elements are produced only inside {sorted(set(prods))}", set(prods) == {"dym_get_dynamical_matrix_at_q"}, "a second producer fills dynamical-matrix elements without the Hermitian symmetrisation", line=tu.line(fn))
    # derivative kernel
    tud = cast.load(DDM)
    fd = tud.functions.get("ddm_get_derivative_dynmat_at_q")
    if fd is None:
        raise AnalysisError("anchor vanished: ddm_get_derivative_dynmat_at_q")
    topd = cast.kids(cast.body(fd))
    i_if = [i for i, s in enumerate(topd) if s.get("kind") == "IfStmt" and cast.text(cast.kids(s)[0]) == "use_openmp"]
    i_for = [i for i, s in enumerate(topd) if s.get("kind") == "ForStmt" and "adrsT" in str([cast.text(x) for x in cast.walk(s) if x.get("kind") == "BinaryOperator" and x.get("opcode") == "="][:6])]
    rep.instance("R03a", DDM, "ddm_get_derivative_dynmat_at_q", "symmetrisation loop follows the use_openmp twin at top level", bool(i_if) and bool(i_for) and i_if[0] < i_for[0],
                 "the derivative of the dynamical matrix is no longer symmetrised after both arms", line=tud.line(fd))
    # coverage of the symmetrisation nest: for every Cartesian component every pair (row, column) -- or its transpose -- is visited
    if i_for:
        nest = topd[i_for[0]]
        sd = cidx.Analyzer([tud]).summary("ddm_get_derivative_dynmat_at_q")
        inner = [(v, lo, hi, line) for v, lo, hi, line, par in sd.loops if line >= tud.line(nest)]
        comp = [x for x in inner if str(x[2]) == "3"]
        rows = [x for x in inner if str(x[2]) != "3"]
        ok_cov = len(comp) == 1 and len(rows) == 2 and str(comp[0][1]) == "0"
        why = ""
        if ok_cov:
            (v1, lo1, hi1, _), (v2, lo2, hi2, _) = rows
            full = sp.expand(hi1 - hi2) == 0 and str(hi1).replace(" ", "") == "3*num_patom"
            lo1s, lo2s = str(lo1), str(lo2)
            # outer row loop from 0; inner column loop from 0 or from the row (triangular)
            ok_cov = full and lo1s == "0" and (lo2s == "0" or lo2s.split("@")[0] == str(v1))
            why = f"row loop '{v1}' from {lo1s.split('@')[0]}, column loop '{v2}' from {lo2s.split('@')[0]}, both to {hi1}"
        rep.instance("R03a", DDM, "ddm_get_derivative_dynmat_at_q", f"symmetrisation visits every pair of every component ({why})", ok_cov,
                     f"the symmetrisation nest does not visit every (row, column) pair of each of the three components ({why}): some elements of dD/dq stay as computed and are not Hermitian for force constants without permutation symmetry, unlike the Python reference and unlike D(q) itself", line=tud.line(nest))
    # Python reference
    pf = core.find_def(PYDM, "DynamicalMatrix._run_py_dynamical_matrix")
    stores = [s for s in ast.walk(pf) if isinstance(s, ast.Assign) and core.src(s.targets[0]) == "self._dynamical_matrix"]
    ok = False
    if stores:
        last = max(stores, key=lambda s: s.lineno)
        e = symalg.open_expr(core.src(last.value))
        ok = symalg.same(e, symalg.open_expr("(dm + dm.conj().transpose()) / 2"))[0] and last in pf.body
    rep.instance("R03a", PYDM, "DynamicalMatrix._run_py_dynamical_matrix", core.src(stores[-1]) if stores else "<vanished>", ok,
                 "the Python reference does not store (D + D^H)/2 as its last unconditional statement", line=pf.lineno)

    # R03b
    mh = tu.functions.get("make_Hermitian")
    if mh is None:
        raise AnalysisError("anchor vanished: make_Hermitian")
    loops = [x for x in cast.walk(mh) if x.get("kind") == "ForStmt"]
    if len(loops) != 2:
        raise AnalysisError("make_Hermitian: expected a two-level loop nest")
    inner_body = cast.kids(loops[1])[-1]
    ar, ai, br, bi = sp.symbols("ar ai br bi", real=True)
    names = {"mat[adrs][0]": ar, "mat[adrs][1]": ai, "mat[adrsT][0]": br, "mat[adrsT][1]": bi, "i": sp.Symbol("i"), "j": sp.Symbol("j"), "num_band": sp.Symbol("n")}
    tr = symalg.CTranslator(names, where="make_Hermitian")
    env = {}
    out = []
    tr._block(cast.kids(inner_body), env, [], out)
    want = {"mat[adrs][0]": (ar + br) / 2, "mat[adrs][1]": (ai - bi) / 2, "mat[adrsT][0]": (ar + br) / 2, "mat[adrsT][1]": -(ai - bi) / 2}
    for k, w in want.items():
        got = env.get(k)
        ok = got is not None and sp.simplify(got - w) == 0
        rep.instance("R03b", DYN, "make_Hermitian", f"{k} == {w}", ok, f"after the loop body {k} is {got}, not {w}: the matrix is not replaced by (M + M^H)/2", line=tu.line(mh), sample={"element": k, "value": str(got)})
    adrs_ok = sp.simplify(env.get("adrs", 0) - (names["i"] * names["num_band"] + names["j"])) == 0 and sp.simplify(env.get("adrsT", 0) - (names["j"] * names["num_band"] + names["i"])) == 0
    rep.instance("R03b", DYN, "make_Hermitian", "adrs = i*n + j, adrsT = j*n + i", adrs_ok, "the two addresses are not transposes of each other", line=tu.line(mh))
    s = cidx.Analyzer([tu]).summary("make_Hermitian")
    lp = {v: (lo, hi) for v, lo, hi, line, par in s.loops}
    ok_loops = False
    if "i" in lp and "j" in lp:
        ilo, ihi = lp["i"]
        jlo, jhi = lp["j"]
        isyms = [x for x in sp.sympify(jlo).free_symbols if str(x).startswith("i@")]
        # every unordered pair {i, j} including the diagonal is visited: j starts at i (or below: the update is idempotent)
        starts_at_or_below_i = sp.sympify(jlo) == 0 or (len(isyms) == 1 and sp.simplify(sp.sympify(jlo) - isyms[0]).is_nonpositive)
        ok_loops = str(ilo) == "0" and str(ihi) == "num_band" and str(jhi) == "num_band" and bool(starts_at_or_below_i)
    rep.instance("R03b", DYN, "make_Hermitian", f"loops { {k: (str(a), str(b)) for k, (a, b) in lp.items()} }", ok_loops,
                 "the loops do not visit every pair j >= i, diagonal included: the imaginary part of a diagonal element (or a whole pair) is left as the kernel produced it, so D(q) is not Hermitian for force constants without permutation symmetry", line=tu.line(mh))

    # R03c
    masses_setter(rep, "R03c")



def masses_setter(rep, rid):
    """Phonopy.masses setter (shared with C16): flow-sensitive provenance of what each cell receives."""
    cls = core.find_def(API, "Phonopy")
    ms = [m for m in cls.body if isinstance(m, ast.FunctionDef) and m.name == "masses" and core._is_property_setter(m)]
    if not ms:
        raise AnalysisError("anchor vanished: Phonopy.masses setter")
    m = ms[0]
    par = m.args.args[1].arg
    CELLS_ = ("self._primitive", "self._supercell", "self._unitcell")
    env: dict = {}      # local -> (set of provenance tags, set of index maps it went through)
    updated: dict = {}  # cell -> (tags, maps, line)
    rebuild_line = None

    def prov(e):
        tags, maps = set(), set()
        for x in ast.walk(e):
            if isinstance(x, ast.Name):
                if x.id == par:
                    tags.add("new")
                elif x.id in env:
                    tags |= env[x.id][0]
                    maps |= env[x.id][1]
            elif isinstance(x, ast.Attribute):
                t = core.src(x)
                if x.attr == "masses" and core.src(x.value) in CELLS_:
                    c = core.src(x.value)
                    if c in updated:
                        tags |= updated[c][0]
                        maps |= updated[c][1]
                    else:
                        tags.add(f"stale:{c}")
                if x.attr in ("p2p_map", "s2p_map", "u2s_map", "p2s_map", "s2u_map", "u2u_map"):
                    maps.add(x.attr)
        return tags, maps

    def walk(stmts):
        nonlocal rebuild_line
        for st in stmts:
            if isinstance(st, ast.Assign) and len(st.targets) == 1:
                t = st.targets[0]
                if isinstance(t, ast.Name):
                    env[t.id] = prov(st.value)
                elif isinstance(t, ast.Attribute) and t.attr == "masses" and core.src(t.value) in CELLS_:
                    tg, mp = prov(st.value)
                    updated[core.src(t.value)] = (tg, mp, st.lineno)
            elif isinstance(st, ast.Expr) and isinstance(st.value, ast.Call):
                c = st.value
                f = core.src(c.func)
                if f.endswith(".set_masses") and f[: -len(".set_masses")] in CELLS_ and c.args:
                    tg, mp = prov(c.args[0])
                    updated[f[: -len(".set_masses")]] = (tg, mp, st.lineno)
                elif f == "self._set_dynamical_matrix" and rebuild_line is None:
                    rebuild_line = st.lineno
            elif isinstance(st, ast.If):
                walk(st.body)
                walk(st.orelse)
            for c in ast.walk(st) if isinstance(st, ast.If) else []:
                pass

    walk(m.body)
    rep.instance(rid, API, "Phonopy.masses.setter", f"cells that receive masses: {sorted(updated)}", set(updated) == set(CELLS_),
                 f"the new masses do not reach all of primitive, supercell and unit cell (only {sorted(updated)})", line=m.lineno)
    for cell, need, what in (("self._primitive", set(), "the caller's masses"), ("self._supercell", {"p2p_map", "s2p_map"}, "the new primitive masses taken through p2p_map[s2p_map[.]]"), ("self._unitcell", {"u2s_map"}, "the new supercell masses at u2s_map")):
        if cell not in updated:
            continue
        tg, mp, ln = updated[cell]
        stale = sorted(t for t in tg if t.startswith("stale:"))
        ok = "new" in tg and not stale and need <= mp
        rep.instance(rid, API, "Phonopy.masses.setter", f"{cell} receives {what}", ok,
                     (f"the value stored in {cell} is read from {stale[0][6:]}.masses before that cell has received the new masses: {cell} keeps the previous masses, so what save() writes for it disagrees with the other cells and load(), which rebuilds everything from the unit cell, reverts to the old masses" if stale else f"the value stored in {cell} is not {what} (provenance {sorted(tg)}, index maps {sorted(mp)})"), line=ln)
    last = max((v[2] for v in updated.values()), default=0)
    rep.instance(rid, API, "Phonopy.masses.setter", "all cells are updated before the dynamical matrix is rebuilt", rebuild_line is not None and last < rebuild_line, "the rebuild is missing or precedes a mass update", line=m.lineno)


def _r03d(rep):
    """Orientation of the reciprocal operations: q' = R_rec q with R_rec = +-R^T for every direct rotation R
    (integer matrices in lattice coordinates are not orthogonal, so R and R^T differ in hexagonal/trigonal axes
    and in primitive bases of centred lattices)."""
    from rules.c09 import _orientation

    SYM = "phonopy/structure/symmetry.py"
    rep.rule("R03d", "every block of the reciprocal point-group operations (the direct half and the time-reversal half) is the transpose of the direct rotations", 2)
    fn = core.find_def(SYM, "get_pointgroup_operations")
    rets = [r.value for r in ast.walk(fn) if isinstance(r, ast.Return) and isinstance(r.value, ast.Tuple) and len(r.value.elts) == 2]
    if len(rets) != 1:
        raise AnalysisError("R03d: get_pointgroup_operations no longer returns (direct, reciprocal)")
    d_expr, r_expr = rets[0].elts

    def strip(e):
        while isinstance(e, ast.Call) and core.src(e.func) in ("np.array", "np.asarray", "np.ascontiguousarray", "list") and e.args:
            e = e.args[0]
        return e

    direct = core.src(strip(d_expr))
    rname = strip(r_expr)
    if not isinstance(rname, ast.Name):
        raise AnalysisError("R03d: the reciprocal operations are not held in a local name")
    blocks = []  # (node, expr)
    for st in ast.walk(fn):
        if isinstance(st, ast.Assign) and any(isinstance(t, ast.Name) and t.id == rname.id for t in st.targets):
            v = st.value
            if isinstance(v, ast.Call) and core.src(v.func) in ("np.concatenate", "np.vstack") and v.args and isinstance(v.args[0], (ast.Tuple, ast.List)):
                for part in v.args[0].elts:
                    if core.src(part) != rname.id:
                        blocks.append((st, part))
            elif isinstance(v, ast.BinOp) and isinstance(v.op, ast.Add):
                for part in (v.left, v.right):
                    if core.src(part) != rname.id:
                        blocks.append((st, part))
            else:
                blocks.append((st, v))
        elif isinstance(st, ast.AugAssign) and isinstance(st.target, ast.Name) and st.target.id == rname.id and isinstance(st.op, ast.Add):
            blocks.append((st, st.value))
        elif isinstance(st, ast.Expr) and isinstance(st.value, ast.Call) and core.src(st.value.func) in (f"{rname.id}.extend", f"{rname.id}.append") and st.value.args:
            blocks.append((st, st.value.args[0]))
    if len(blocks) < 2:
        raise AnalysisError(f"R03d: only {len(blocks)} block(s) of reciprocal operations found (direct half and time-reversal half expected)")
    for st, part in blocks:
        o = _orientation(part, direct)
        if o is None:
            rep.unknown(f"R03d: orientation of '{core.src(part)}' relative to '{direct}' not recognised")
            continue
        rep.instance("R03d", SYM, "get_pointgroup_operations", f"{core.norm(core.src(part), 60)} : {o}", o == "transposed",
                     f"the block '{core.norm(core.src(part), 60)}' of the reciprocal operations holds the direct rotations untransposed: such an operation is not an isometry of the reciprocal lattice unless the basis is orthogonal, so the spectrum at R q differs from that at q (non-centrosymmetric crystals in hexagonal axes or primitive bases of centred lattices)", line=st.lineno)


def _r03g(rep):
    """Orientation of the reciprocal lattice handed to the compiled NAC kernels (frame typing)."""
    from engine import frames
    from engine.frames import C as CART, L as LAT

    rep.rule("R03g", "the reciprocal lattice that the batch solver hands to the compiled kernels has the reciprocal basis vectors as COLUMNS (get_q_cart contracts its second axis with the reduced q): typed (Cartesian, component index of the primitive lattice), i.e. inv(cell) of the row-vector lattice; inv(cell.T) maps q and the q-direction to another Cartesian vector unless the lattice matrix is symmetric, so the non-analytical term of D(Rq) is not that of D(q)", 1)
    fn = core.find_def(PYDM, "_extract_params")
    dpar = fn.args.args[0].arg
    ty = frames.Typer(fn, seeds={f"{dpar}.primitive.cell": (LAT("p", "-"), CART), "primitive.cell": (LAT("p", "-"), CART)}, params={}, call_sigs={}, where=f"{PYDM}::_extract_params")
    problems = ty.run()
    rets = [r.value for r in ast.walk(fn) if isinstance(r, ast.Return) and isinstance(r.value, ast.Tuple)]
    if len(rets) != 1:
        raise AnalysisError("R03g: _extract_params no longer returns one tuple")
    cands = []
    for el in rets[0].elts:
        t = ty.expr(el)
        if t is not None and len(t) == 2 and any(ax[0] == "L" for ax in t):
            cands.append((el, t))
    if len(cands) != 1:
        raise AnalysisError(f"R03g: {len(cands)} lattice-typed entries in what _extract_params returns (the reciprocal lattice expected)")
    el, t = cands[0]
    want = (CART, LAT("p", "+"))
    ok = not problems and frames.same_axis(t[0], want[0]) is not False and frames.same_axis(t[1], want[1]) is not False
    rep.instance("R03g", PYDM, "_extract_params", f"{core.src(el)} : {frames.show(t)}", ok,
                 f"the reciprocal lattice handed to the kernels is typed {frames.show(t)}, not {frames.show(want)}: the kernels read the reciprocal basis vectors from the columns", line=el.lineno)


def _r03h(rep):
    """Moving q-points into the first Brillouin zone keeps them equivalent: the change of basis and its inverse (frame typing)."""
    from engine import frames
    from engine.frames import C as CART, L as LAT, U as UNK
    from rules.c04 import SIGS

    rep.rule("R03h", "BrillouinZone: q-points are taken to the coordinates of the reduced reciprocal basis, shifted by integer vectors there, and taken back with the inverse change of basis (frame typing of every product: reciprocal basis in columns (Cartesian, L(q)-), reduced basis in rows (L(r)-, Cartesian), q components L(q)+): a back-transform with the transpose instead of the inverse adds a vector that is not a reciprocal lattice vector, so the returned points are not equivalent to q", 2)
    BZ = "phonopy/structure/brillouin_zone.py"
    init = core.find_def(BZ, "BrillouinZone.__init__")
    runf = core.find_def(BZ, "BrillouinZone.run")
    rpar = init.args.args[1].arg
    ty0 = frames.Typer(init, seeds={}, params={rpar: (CART, LAT("q", "-"))}, call_sigs=SIGS, where=f"{BZ}::BrillouinZone.__init__")
    problems = list(ty0.run())
    seeds = {k: v for k, v in ty0.env.items() if k.startswith("self.") and v is not None}
    seeds["search_space"] = (UNK, LAT("r", "+"))
    qpar = runf.args.args[1].arg
    ty1 = frames.Typer(runf, seeds=seeds, params={qpar: (UNK, LAT("q", "+"))}, call_sigs=SIGS, where=f"{BZ}::BrillouinZone.run")
    problems += list(ty1.run())
    n = ty0.n_typed + ty1.n_typed
    if not problems and n < 3:
        raise AnalysisError(f"R03h: only {n} products typed in BrillouinZone (change of basis, forward and back transform expected)")
    rep.instance("R03h", BZ, "BrillouinZone.__init__", f"{ty0.n_typed} product(s) typed: change of basis between the reciprocal and the reduced basis", not [p_ for p_ in problems if any(p_.node is x for x in ast.walk(init))],
                 next((p_.message for p_ in problems if any(p_.node is x for x in ast.walk(init))), "") + ": the matrix between q components and reduced components is not built from the two bases consistently", line=init.lineno)
    bad_run = [p_ for p_ in problems if any(p_.node is x for x in ast.walk(runf))]
    rep.instance("R03h", BZ, "BrillouinZone.run", f"{ty1.n_typed} product(s) typed: forward transform, lengths in the reduced basis, back transform", not bad_run,
                 (bad_run[0].message if bad_run else "") + ": the points returned as equivalents of q differ from q by a vector that is not a reciprocal lattice vector unless the change of basis is a signed permutation (cubic, hexagonal and simple orthogonal cells); D there has another spectrum", line=getattr(bad_run[0].node, "lineno", runf.lineno) if bad_run else runf.lineno)


def _r03i(rep):
    """The reciprocal lattice vectors of the Ewald sum: the integer triplets run over the whole cube [-g_rad, g_rad]^3."""
    rep.rule("R03i", "the reciprocal-space sum of the Gonze-Lee dipole-dipole term runs over integer triplets that fill the cube [-g_rad, g_rad]^3 (interval evaluation of the index construction: ndindex / mgrid / arange / range / product, shifts and reshapes): a half-open range such as mgrid[-g:g] loses the shell at +g, the set of G is then no longer closed under G -> -G and the dipole-dipole matrix is neither Hermitian-symmetric in q -> -q nor converged as the cutoff says", 1)
    fn = core.find_def(PYDM, "DynamicalMatrixGL._get_G_vec_list")
    gpar = next((a.arg for a in fn.args.args if a.arg != "self"), None)
    if gpar is None:
        raise AnalysisError("R03i: _get_G_vec_list lost its radius parameter")
    g = sp.Symbol(gpar, integer=True, positive=True)
    defs = {}
    for st in ast.walk(fn):
        if isinstance(st, ast.Assign) and len(st.targets) == 1 and isinstance(st.targets[0], ast.Name):
            defs.setdefault(st.targets[0].id, []).append(st.value)

    class Unknown(Exception):
        pass

    def scal(e):
        if isinstance(e, ast.Constant) and isinstance(e.value, int) and not isinstance(e.value, bool):
            return sp.Integer(e.value)
        if isinstance(e, ast.Name):
            if e.id == gpar:
                return g
            if len(defs.get(e.id, [])) == 1:
                return scal(defs[e.id][0])
            raise Unknown(f"scalar '{e.id}'")
        if isinstance(e, ast.UnaryOp) and isinstance(e.op, ast.USub):
            return -scal(e.operand)
        if isinstance(e, ast.BinOp) and isinstance(e.op, (ast.Add, ast.Sub, ast.Mult)):
            a, b = scal(e.left), scal(e.right)
            return a + b if isinstance(e.op, ast.Add) else (a - b if isinstance(e.op, ast.Sub) else a * b)
        if isinstance(e, ast.Call) and core.src(e.func) == "int" and len(e.args) == 1:
            return scal(e.args[0])
        raise Unknown(core.norm(core.src(e), 40))

    def rng(args):
        """(lo, hi) of range / arange arguments"""
        if len(args) == 1:
            return sp.Integer(0), scal(args[0]) - 1
        if len(args) == 2 or (len(args) == 3 and isinstance(args[2], ast.Constant) and args[2].value == 1):
            return scal(args[0]), scal(args[1]) - 1
        raise Unknown("stepped range")

    def grid(e, depth=0):
        """[(lo, hi)] per axis of an integer grid expression"""
        if depth > 12:
            raise Unknown("depth")
        if isinstance(e, ast.Name):
            if len(defs.get(e.id, [])) == 1:
                return grid(defs[e.id][0], depth + 1)
            raise Unknown(f"'{e.id}'")
        if isinstance(e, ast.Attribute) and e.attr == "T":
            return grid(e.value, depth + 1)
        if isinstance(e, ast.BinOp) and isinstance(e.op, (ast.Add, ast.Sub)):
            try:
                sh = scal(e.right)
                base = grid(e.left, depth + 1)
            except Unknown:
                if isinstance(e.op, ast.Sub):
                    raise
                sh = scal(e.left)
                base = grid(e.right, depth + 1)
            sgn = 1 if isinstance(e.op, ast.Add) else -1
            return [(lo + sgn * sh, hi + sgn * sh) for lo, hi in base]
        if isinstance(e, ast.Subscript) and core.src(e.value) in ("np.mgrid", "np.ogrid"):
            parts = e.slice.elts if isinstance(e.slice, ast.Tuple) else [e.slice]
            out = []
            for p_ in parts:
                if not isinstance(p_, ast.Slice) or p_.lower is None or p_.upper is None:
                    raise Unknown("mgrid slice")
                if p_.step is not None and not (isinstance(p_.step, ast.Constant) and p_.step.value == 1):
                    raise Unknown("mgrid step")
                out.append((scal(p_.lower), scal(p_.upper) - 1))
            return out
        if isinstance(e, ast.Call):
            f = core.src(e.func)
            if f in ("np.array", "np.asarray", "list", "tuple", "np.ascontiguousarray", "np.stack", "np.vstack") and e.args:
                return grid(e.args[0], depth + 1)
            if isinstance(e.func, ast.Attribute) and e.func.attr in ("reshape", "astype", "copy", "transpose"):
                return grid(e.func.value, depth + 1)
            if f == "np.ndindex":
                a = e.args[0].elts if len(e.args) == 1 and isinstance(e.args[0], (ast.Tuple, ast.List)) else e.args
                return [(sp.Integer(0), scal(x) - 1) for x in a]
            if f in ("np.arange", "range"):
                return [rng(e.args)]
            if f in ("np.meshgrid",):
                out = []
                for a in e.args:
                    out += grid(a, depth + 1)
                return out
            if f in ("itertools.product", "product"):
                rep_ = next((k.value for k in e.keywords if k.arg == "repeat"), None)
                out = []
                for a in e.args:
                    out += grid(a, depth + 1)
                if rep_ is not None:
                    out = out * int(scal(rep_))
                return out
            if f == "np.indices":
                a = e.args[0].elts if isinstance(e.args[0], (ast.Tuple, ast.List)) else None
                if a:
                    return [(sp.Integer(0), scal(x) - 1) for x in a]
        if isinstance(e, ast.Subscript) and core.src(e.value).startswith("np.r_"):
            parts = e.slice.elts if isinstance(e.slice, ast.Tuple) else [e.slice]
            out = []
            for p_ in parts:
                if isinstance(p_, ast.Constant) and isinstance(p_.value, str):
                    continue
                out += grid(p_, depth + 1)
            return out
        raise Unknown(core.norm(core.src(e), 50))

    # the integer operand of the product with the reciprocal lattice in the returned expression
    rets = [r for r in ast.walk(fn) if isinstance(r, ast.Return) and r.value is not None]
    if not rets:
        raise AnalysisError("R03i: _get_G_vec_list returns nothing")
    ints = []
    for r in rets:
        v = r.value
        while isinstance(v, ast.Attribute) and v.attr == "T":
            v = v.value
        if isinstance(v, ast.Call) and isinstance(v.func, ast.Attribute) and v.func.attr in ("T", "copy"):
            v = v.func.value
        ops = []
        if isinstance(v, ast.BinOp) and isinstance(v.op, ast.MatMult):
            ops = [v.left, v.right]
        elif isinstance(v, ast.Call) and core.src(v.func) in ("np.dot", "np.matmul") and len(v.args) == 2:
            ops = list(v.args)
        cand = [o for o in ops if "_rec_lat" not in core.src(o)]
        if len(cand) != 1:
            rep.unknown(f"R03i: form of the value returned by _get_G_vec_list not recognised ('{core.norm(core.src(r.value), 60)}')")
            continue
        ints.append((r, cand[0]))
    for r, e in ints:
        try:
            axes = grid(e)
        except Unknown as ex:
            rep.unknown(f"R03i: the integer triplets of _get_G_vec_list are built in a way that is not evaluated ({ex})")
            continue
        shown = ", ".join(f"[{sp.simplify(lo)}, {sp.simplify(hi)}]" for lo, hi in axes)
        ok = len(axes) == 3 and all(sp.simplify(lo + g) == 0 and sp.simplify(hi - g) == 0 for lo, hi in axes)
        rep.instance("R03i", PYDM, "DynamicalMatrixGL._get_G_vec_list", f"index ranges per axis: {shown}", ok,
                     f"the integer triplets of the reciprocal-space sum run over {shown} per axis instead of [-{gpar}, {gpar}] on three axes: the set of G vectors is not the cube the cutoff describes (a missing shell on one side makes the set asymmetric under G -> -G), so the dipole-dipole part of D(q) is not the converged Ewald sum and D(-q) = conj(D(q)) no longer holds term by term", line=r.lineno)


_run_main = run


def run(rep: core.Report):
    from rules import shared_trunc

    _run_main(rep)
    shared_trunc.run(rep, "R03e")
    from rules import c13

    c13.tolerance_degree(rep, "R03f")
    _r03g(rep)
    _r03h(rep)
    _r03i(rep)


def selftest():
    V = []
    b = lambda name, file, old, new, rule, expect="", **kw: V.append(dict(name=name, kind="break", file=file, old=old, new=new, rule=rule, expect=expect, **kw))
    n = lambda name, file, old, new, **kw: V.append(dict(name=name, kind="neutral", file=file, old=old, new=new, **kw))
    b("G vectors from a half-open mgrid", PYDM, "        npts = g_rad * 2 + 1\n        grid = np.array(list(np.ndindex((npts, npts, npts)))) - g_rad\n        return grid @ self._rec_lat.T", "        grid = np.mgrid[-g_rad:g_rad, -g_rad:g_rad, -g_rad:g_rad]\n        return grid.reshape(3, -1).T @ self._rec_lat.T", "R03i", "_get_G_vec_list")
    n("G vectors from a closed mgrid", PYDM, "        npts = g_rad * 2 + 1\n        grid = np.array(list(np.ndindex((npts, npts, npts)))) - g_rad\n        return grid @ self._rec_lat.T", "        grid = np.mgrid[-g_rad : g_rad + 1, -g_rad : g_rad + 1, -g_rad : g_rad + 1]\n        return grid.reshape(3, -1).T @ self._rec_lat.T")
    b("Brillouin-zone back transform with the transpose of the forward map", "phonopy/structure/brillouin_zone.py", "        reduced_qpoints = np.dot(qpoints, self._tmat_inv.T)", "        reduced_qpoints = np.dot(qpoints, self._tmat)", "R03h", "BrillouinZone.run")
    b("reciprocal lattice handed to the kernels as rows", PYDM, "np.linalg.inv(dm.primitive.cell), dtype=\"double\", order=\"C\")", "np.linalg.inv(dm.primitive.cell.T), dtype=\"double\", order=\"C\")", "R03g", "_extract_params")
    b("make_Hermitian only on the serial arm", DYN, "                              i, j);\n            }\n        }\n    }\n\n    make_Hermitian(dynamical_matrix, num_patom * 3);", "                              i, j);\n            }\n        }\n        make_Hermitian(dynamical_matrix, num_patom * 3);\n    }\n", "R03a", "dym_get_dynamical_matrix_at_q")
    b("imaginary part added instead of subtracted", DYN, "            mat[adrs][1] -= mat[adrsT][1];", "            mat[adrs][1] += mat[adrsT][1];", "R03b", "mat[adrs][1]")
    b("transpose partner stored without conjugation", DYN, "            mat[adrsT][1] = -mat[adrs][1];", "            mat[adrsT][1] = mat[adrs][1];", "R03b", "mat[adrsT][1]")
    b("diagonal skipped", DYN, "        for (j = i; j < num_band; j++) {\n            adrs = i * num_band + j;", "        for (j = i + 1; j < num_band; j++) {\n            adrs = i * num_band + j;", "R03b", "loops")
    V.append(dict(name="inner loop starts at zero (idempotent update)", kind="neutral", file=DYN, old="        for (j = i; j < num_band; j++) {\n            adrs = i * num_band + j;", new="        for (j = 0; j < num_band; j++) {\n            adrs = i * num_band + j;"))
    b("python reference skips symmetrisation", PYDM, "        self._dynamical_matrix = (dm + dm.conj().transpose()) / 2", "        self._dynamical_matrix = dm", "R03a", "_run_py_dynamical_matrix")
    SYMF = "phonopy/structure/symmetry.py"
    b("time-reversal half untransposed", SYMF, "            reciprocal_rotations += [-rot.T for rot in ptg_ops]", "            reciprocal_rotations += [-rot for rot in ptg_ops]", "R03d", "get_pointgroup_operations")
    b("direct half untransposed", SYMF, "    reciprocal_rotations = [rot.T for rot in ptg_ops]", "    reciprocal_rotations = [rot for rot in ptg_ops]", "R03d", "get_pointgroup_operations")
    V.append(dict(name="time-reversal half with np.transpose", kind="neutral", file=SYMF, old="            reciprocal_rotations += [-rot.T for rot in ptg_ops]", new="            reciprocal_rotations += [-np.transpose(rot) for rot in ptg_ops]"))
    b("derivative symmetrisation starts at the component index", DDM, "        for (j = 0; j < num_patom * 3; j++) {\n            for (k = 0; k < num_patom * 3; k++) {\n                adrs = i * num_patom * num_patom * 9", "        for (j = i; j < num_patom * 3; j++) {\n            for (k = 0; k < num_patom * 3; k++) {\n                adrs = i * num_patom * num_patom * 9", "R03a", "visits every pair")
    V.append(dict(name="derivative symmetrisation over the upper triangle", kind="neutral", file=DDM, old="            for (k = 0; k < num_patom * 3; k++) {\n                adrs = i * num_patom * num_patom * 9", new="            for (k = j; k < num_patom * 3; k++) {\n                adrs = i * num_patom * num_patom * 9"))
    b("unit cell masses not updated", API, "        self._unitcell.set_masses(u_masses)\n", "", "R03c", "cells that receive masses")
    b("equidistant images decided on squared lengths", "c/phonopy.c", "                length[k] = sqrt(length[k]);\n            }\n\n            minimum = DBL_MAX;\n            for (k = 0; k < num_lattice_points; k++) {\n                if (length[k] < minimum) {\n                    minimum = length[k];\n                }\n            }\n\n            count = 0;\n            for (k = 0; k < num_lattice_points; k++) {\n                if (length[k] - minimum < symprec) {\n                    if (!initialize) {", "            }\n\n            minimum = DBL_MAX;\n            for (k = 0; k < num_lattice_points; k++) {\n                if (length[k] < minimum) {\n                    minimum = length[k];\n                }\n            }\n\n            count = 0;\n            for (k = 0; k < num_lattice_points; k++) {\n                if (length[k] - minimum < symprec * symprec) {\n                    if (!initialize) {", "R03f", "dense")
    from rules import shared_trunc

    shared_trunc.variants(b, None, "R03e")
    return V
