"""C14 — one spectrum on every access path and option combination (DESIGN §3 C14)."""

from __future__ import annotations

import ast
import re

import sympy as sp

from engine import core, pyabs, pycfg, symalg
from engine.core import AnalysisError

SCOPE = [
    "phonopy/phonon/qpoints.py",
    "phonopy/phonon/mesh.py",
    "phonopy/phonon/band_structure.py",
    "phonopy/phonon/group_velocity.py",
    "phonopy/gruneisen/core.py",
    "phonopy/gruneisen/mesh.py",
    "phonopy/gruneisen/band_structure.py",
    "phonopy/phonon/random_displacements.py",
    "phonopy/phonon/modulation.py",
    "phonopy/phonon/irreps.py",
    "phonopy/harmonic/dynamical_matrix.py",
    "phonopy/harmonic/derivative_dynmat.py",
    "phonopy/harmonic/dynmat_to_fc.py",
]
WIDE = SCOPE + ["phonopy/api_phonopy.py", "phonopy/phonon/dos.py", "phonopy/phonon/thermal_properties.py", "phonopy/phonon/thermal_displacement.py", "phonopy/phonon/moment.py", "phonopy/phonon/tetrahedron_mesh.py", "phonopy/api_gruneisen.py"]

# conversion sites that intentionally drop the sign, one line of reason each
UNSIGNED_OK = {
    ("phonopy/phonon/random_displacements.py", "RandomDisplacements.run_correlation_matrix"): "imaginary modes are excluded by the frequency condition right below; only |freq| is needed",
    ("phonopy/phonon/random_displacements.py", "RandomDisplacements._get_sigma"): "sigma is evaluated for modes selected by the cutoff condition; negative eigenvalues are masked",
}


def functions(rel):
    tree = core.parse(rel)
    for cls in [tree] + [c for c in ast.walk(tree) if isinstance(c, ast.ClassDef)]:
        for fn in cls.body:
            if isinstance(fn, ast.FunctionDef):
                yield (cls if isinstance(cls, ast.ClassDef) else None), fn


def run(rep: core.Report):
    files = WIDE if rep.tier == "thorough" else SCOPE
    _r14a(rep, WIDE)
    _r14b(rep, files)
    _r14c(rep)
    _r14d(rep)
    _r14e(rep)
    _r14f(rep)
    _r14g(rep)
    _r14h(rep)
    _r14i(rep)
    _r14l(rep)
    from rules import shared_bcast

    shared_bcast.run(rep, "R14k", [r for r in ["phonopy/phonon/band_structure.py", "phonopy/phonon/mesh.py", "phonopy/phonon/qpoints.py", "phonopy/phonon/degeneracy.py"] if (core.REPO / r).is_file()])
    from rules import shared_forward

    shared_forward.run(rep, "R14j", "phonopy/api_phonopy.py", "Phonopy", 60)
    from rules import shared_freshwrite

    _r14n(rep)
    from rules import shared_outalias

    shared_outalias.run(rep, "R14p", ["phonopy/phonon/mesh.py", "phonopy/phonon/qpoints.py", "phonopy/phonon/band_structure.py", "phonopy/phonon/group_velocity.py", "phonopy/harmonic/dynamical_matrix.py"])
    shared_freshwrite.run(rep, "R14m", ["phonopy/phonon/group_velocity.py", "phonopy/phonon/qpoints.py", "phonopy/phonon/mesh.py", "phonopy/phonon/band_structure.py"], 3)
    from rules import shared_readonly

    shared_readonly.run(rep, "R14o", ["phonopy/phonon/band_structure.py", "phonopy/phonon/mesh.py", "phonopy/phonon/qpoints.py"], 5)


# ---------------------------------------------------------------------------
# R14h band connection yields a permutation
# ---------------------------------------------------------------------------

BS = "phonopy/phonon/band_structure.py"


def _seq_domain(fn, expr, params_perm, depth=0):
    """'perm' | 'noninj' | None (unknown) for an index sequence expression inside fn."""
    if depth > 6:
        return None
    if isinstance(expr, ast.Call):
        f = core.src(expr.func)
        if f in ("range",):
            return "perm"
        if f in ("np.argsort",) or f.endswith(".argsort"):
            return "perm"
        if f in ("np.argmax", "np.argmin", "np.nanargmax", "np.nanargmin") or f.endswith(".argmax") or f.endswith(".argmin"):
            return "noninj"  # independent maxima: two rows may pick the same column
        if f in ("list", "np.array", "np.asarray", "tuple") and expr.args:
            return _seq_domain(fn, expr.args[0], params_perm, depth + 1)
        if f == "estimate_band_connection":
            return "perm"  # established by R14h on the callee
        return None
    if isinstance(expr, ast.Subscript) and isinstance(expr.value, ast.Call) and core.src(expr.value.func).endswith("linear_sum_assignment"):
        return "perm"
    if isinstance(expr, ast.ListComp) and len(expr.generators) == 1 and not expr.generators[0].ifs:
        g = expr.generators[0]
        elt = expr.elt
        while isinstance(elt, ast.Call) and core.src(elt.func) in ("int",) and elt.args:
            elt = elt.args[0]
        if isinstance(elt, ast.Subscript) and isinstance(g.target, ast.Name) and core.src(elt.slice) == g.target.id:
            a = _seq_domain(fn, elt.value, params_perm, depth + 1)
            b = _seq_domain(fn, g.iter, params_perm, depth + 1)
            if a == "noninj" or b == "noninj":
                return "noninj"
            return "perm" if a == "perm" and b == "perm" else None
        return None
    if isinstance(expr, ast.Name):
        if expr.id in params_perm:
            return "perm"
        defs = [s for s in ast.walk(fn) if isinstance(s, ast.Assign) and any(isinstance(t, ast.Name) and t.id == expr.id for t in s.targets)]
        if len(defs) == 1 and isinstance(defs[0].value, ast.List) and not defs[0].value.elts:
            return _built_by_exclusion(fn, expr.id)
        doms = {_seq_domain(fn, d.value, params_perm, depth + 1) for d in defs}
        if len(doms) == 1:
            return doms.pop()
        if "noninj" in doms:
            return "noninj"
        return None
    return None


def _built_by_exclusion(fn, name):
    """A list filled by `name.append(m)` once per outer iteration, where m is chosen by an inner loop over all
    candidate indices that skips those already in the list: injective and complete, i.e. a permutation."""
    apps = [c for c in ast.walk(fn) if isinstance(c, ast.Call) and core.src(c.func) == f"{name}.append" and len(c.args) == 1]
    if len(apps) != 1 or not isinstance(apps[0].args[0], ast.Name):
        return None
    chosen = apps[0].args[0].id
    outer = [lp for lp in ast.walk(fn) if isinstance(lp, ast.For) and any(isinstance(s, ast.Expr) and s.value is apps[0] for s in lp.body)]
    if not outer:
        return None
    inner = [lp for lp in outer[0].body if isinstance(lp, ast.For)]
    for lp in inner:
        if not isinstance(lp.target, ast.Name):
            continue
        cand = lp.target.id
        assigns = [s for s in ast.walk(lp) if isinstance(s, ast.Assign) and core.src(s.targets[0]) == chosen and core.src(s.value) == cand]
        if not assigns:
            continue
        # exclusion: `if cand in name: continue` before the assignment, or the assignment guarded by `cand not in name`
        skip = any(isinstance(s, ast.If) and core.src(s.test) == f"{cand} in {name}" and any(isinstance(x, ast.Continue) for x in s.body) for s in lp.body)
        guarded = any(isinstance(s, ast.If) and f"{cand} not in {name}" in core.src(s.test) and any(a in set(ast.walk(s)) for a in assigns) for s in ast.walk(lp))
        full = "range(len(" in core.src(lp.iter) or core.src(lp.iter).startswith("range(")
        if (skip or guarded) and full:
            return "perm"
        return "noninj"  # the best candidate is taken without excluding those already used
    return None


def _r14h(rep):
    rep.rule("R14h", "the band order produced by the band connection is a permutation by construction (each new band is chosen at most once; composed with the previous order), and every call site starts from range(n)", 3)
    fn = core.find_def(BS, "estimate_band_connection")
    rets = [r for r in ast.walk(fn) if isinstance(r, ast.Return) and r.value is not None]
    if len(rets) != 1:
        raise AnalysisError("R14h: estimate_band_connection: expected one return")
    params = [a.arg for a in fn.args.args]
    dom = _seq_domain(fn, rets[0].value, {params[-1]})
    if dom is None:
        rep.unknown("R14h: the construction of the returned band order is not one of the modelled forms (exclusion loop, argsort, linear_sum_assignment, composition)")
    else:
        rep.instance("R14h", BS, "estimate_band_connection", f"return {core.src(rets[0].value)} is a permutation by construction", dom == "perm",
                     "the connection picks the best-overlapping new band for each previous band independently: when two previous eigenvectors overlap most with the same new one, a band index is used twice and another is lost, so the frequencies of that q-point (and of every later point of the path) are not a re-ordering of the spectrum", line=rets[0].lineno)
    # call sites: the order handed in is range(n) or an earlier result
    n = 0
    for rel, qn in ((BS, "BandStructure._solve_dm_on_path"), ("phonopy/gruneisen/core.py", "GruneisenBase._set_gruneisen")):
        f = core.find_def(rel, qn)
        for c in [c for c in ast.walk(f) if isinstance(c, ast.Call) and core.src(c.func) == "estimate_band_connection"]:
            n += 1
            arg = c.args[-1]
            d = _seq_domain(f, arg, set())
            rep.instance("R14h", rel, qn, f"{core.src(arg)} handed to estimate_band_connection is range(n) or an earlier result", d == "perm",
                         f"the previous band order '{core.src(arg)}' is not known to be a permutation", line=c.lineno)
    if n < 2:
        raise AnalysisError("R14h: call sites of estimate_band_connection vanished")


# ---------------------------------------------------------------------------
# R14g reciprocal-space frames
# ---------------------------------------------------------------------------


def _r14g(rep):
    from engine import frames
    from engine.frames import C as CART, L as LAT, U as UNK

    QRED = (LAT("p", "-"),)  # q-point / direction in reduced reciprocal coordinates
    RECLAT = (CART, LAT("p", "+"))  # inv(primitive.cell): reciprocal basis vectors in columns
    run_sig = {"pos": [QRED], "kw": {"q_direction": QRED, "perturbation": QRED}}
    sigs = {"run": run_sig, "_compute_dynamical_matrix": {"pos": [QRED, QRED]}, "_get_dD": {"pos": [QRED]}, "_get_dynamical_matrix": {"pos": [QRED]}, "_delta_dynamical_matrix": {"pos": [QRED, QRED]}}
    rep.rule("R14g", "q-points and NAC/perturbation directions handed between the access paths are in reduced reciprocal coordinates everywhere (frame typing: reciprocal basis (Cart, L+) contracts with reduced vectors L-; a Cartesian vector is never passed where a reduced one is expected)", 8)
    scope = [
        ("phonopy/phonon/band_structure.py", "BandStructure._solve_dm_on_path", {}, {"path": (UNK,) + QRED}),
        ("phonopy/phonon/qpoints.py", "QpointsPhonon._get_dynamical_matrix", {"self._nac_q_direction": QRED}, {"q": QRED}),
        ("phonopy/phonon/qpoints.py", "QpointsPhonon._run", {"self._nac_q_direction": QRED, "self._qpoints": (UNK,) + QRED}, {}),
        ("phonopy/phonon/group_velocity.py", "GroupVelocity.run", {"self._reciprocal_lattice": RECLAT}, {"q_points": (UNK,) + QRED, "perturbation": QRED}),
        ("phonopy/phonon/group_velocity.py", "GroupVelocity._get_dD_FD", {"self._reciprocal_lattice": RECLAT, "self._reciprocal_lattice_inv": (LAT("p", "-"), CART), "self._directions": (UNK, CART), "self._q_length": ()}, {"q": QRED}),
        ("phonopy/harmonic/dynamical_matrix.py", "DynamicalMatrixNAC.run", {"self._rec_lat": RECLAT}, {"q": QRED, "q_direction": QRED}),
        ("phonopy/harmonic/dynamical_matrix.py", "DynamicalMatrixGL._compute_dynamical_matrix", {"self._rec_lat": RECLAT}, {"q_red": QRED, "q_direction": QRED}),
        ("phonopy/harmonic/dynamical_matrix.py", "DynamicalMatrixWang._compute_dynamical_matrix", {"self._rec_lat": RECLAT}, {"q_red": QRED, "q_direction": QRED}),
        ("phonopy/harmonic/dynamical_matrix.py", "DynamicalMatrixGL._get_Gonze_dipole_dipole", {"self._rec_lat": RECLAT}, {"q_red": QRED, "q_direction": QRED}),
        ("phonopy/phonon/mesh.py", "IterMesh.__next__", {"self._qpoints": (UNK,) + QRED}, {}),
        ("phonopy/phonon/mesh.py", "Mesh._set_phonon", {"self._qpoints": (UNK,) + QRED}, {}),
    ]
    typed = 0
    for rel, qn, seeds, params in scope:
        try:
            fn = core.find_def(rel, qn)
        except AnalysisError:
            if "_get_Gonze_dipole_dipole" in qn or "_get_dD_FD" in qn:
                continue
            raise
        ty = frames.Typer(fn, seeds=seeds, params=params, call_sigs=sigs, where=f"{rel}::{qn}")
        problems = ty.run()
        typed += ty.n_typed
        if not problems:
            rep.instance("R14g", rel, qn, f"{ty.n_typed} reciprocal-space contractions/arguments typed consistently", True, nontrivial=ty.n_typed > 0, line=fn.lineno)
        for p in problems:
            rep.instance("R14g", rel, qn, core.norm(core.src(p.node), 90), False,
                         f"{p.message}: this access path works in a different coordinate system than its siblings (Cartesian vs reduced, or a transposed reciprocal lattice); the results differ for non-orthogonal cells", line=getattr(p.node, "lineno", fn.lineno))
    if typed < 8:
        raise AnalysisError(f"R14g: only {typed} reciprocal-space operations could be typed")


# ---------------------------------------------------------------------------
# R14f sticky optional arguments
# ---------------------------------------------------------------------------


def _base_attr(t):
    while isinstance(t, ast.Subscript):
        t = t.value
    if isinstance(t, ast.Attribute) and isinstance(t.value, ast.Name) and t.value.id == "self" and t.attr.startswith("_"):
        return core.src(t)
    return None


def _stores(stmts):
    out = set()
    for s in stmts:
        for n in ast.walk(s):
            if isinstance(n, (ast.Assign, ast.AugAssign)):
                for t in (n.targets if isinstance(n, ast.Assign) else [n.target]):
                    for tt in (t.elts if isinstance(t, ast.Tuple) else [t]):
                        b = _base_attr(tt)
                        if b:
                            out.add(b)
    return out


def _r14f(rep):
    rep.rule("R14f", "a per-call optional argument (default None) never leaves private state behind: if one arm of 'if arg is None' stores self._x, the other arm (or an earlier unconditional statement) stores it too, so a later call without the argument does not see the earlier call's value", 5)
    for rel in core.python_files("phonopy"):
        if "/scripts/" in rel or "/cui/" in rel or "/interface/" in rel:
            continue
        for cls in [c for c in ast.walk(core.parse(rel)) if isinstance(c, ast.ClassDef)]:
            for m in cls.body:
                if not isinstance(m, ast.FunctionDef) or m.name == "__init__" or core._is_property_setter(m):
                    continue
                a = m.args
                defaults = dict(zip([x.arg for x in a.args][::-1], a.defaults[::-1]))
                opt = {k for k, d in defaults.items() if isinstance(d, ast.Constant) and d.value is None}
                if not opt:
                    continue
                for node in ast.walk(m):
                    if not isinstance(node, ast.If):
                        continue
                    t, pol = pycfg._norm_guard(node.test)
                    pn = t[: -len(" is None")] if t.endswith(" is None") else t
                    if pn not in opt:
                        continue
                    sa, sb = _stores(node.body), _stores(node.orelse)
                    pre = set()
                    cur = node
                    while cur is not None and cur is not m:
                        par = getattr(cur, "_parent", None)
                        for field in ("body", "orelse", "finalbody"):
                            lst = getattr(par, field, None)
                            if isinstance(lst, list) and cur in lst:
                                for prev in lst[: lst.index(cur)]:
                                    if not isinstance(prev, (ast.If, ast.For, ast.While, ast.Try)):
                                        pre |= _stores([prev])
                        cur = par
                    only = ((sa - sb) | (sb - sa)) - pre
                    # the attribute must be read by this method or the class after the branch (otherwise it is a plain setter)
                    for attr in sorted(sa | sb):
                        read_later = any(isinstance(n, ast.Attribute) and core.src(n) == attr and isinstance(n.ctx, ast.Load) for mm in cls.body if isinstance(mm, ast.FunctionDef) and mm is not m for n in ast.walk(mm))
                        if not read_later:
                            continue
                        ok = attr not in only
                        rep.instance("R14f", rel, core.qualname_of(m), f"if {core.norm(core.src(node.test), 40)}: … stores {attr}", ok,
                                     f"{attr} is stored only when '{pn}' is {'given' if attr in (sa if not pol else sb) or True else 'omitted'} and is read by other methods: a later call that omits '{pn}' keeps computing with the value left by the earlier call",
                                     line=node.lineno)


def _inside(node, kind):
    cur = getattr(node, "_parent", None)
    while cur is not None and not isinstance(cur, ast.FunctionDef):
        if isinstance(cur, kind):
            return True
        cur = getattr(cur, "_parent", None)
    return False


# ---------------------------------------------------------------------------
# R14a retained slot view overwritten
# ---------------------------------------------------------------------------


def _guards(node) -> frozenset:
    """(text, polarity) of the pure option guards enclosing a statement."""
    out = set()
    cur, child = getattr(node, "_parent", None), node
    while cur is not None and not isinstance(cur, ast.FunctionDef):
        if isinstance(cur, ast.If) and pycfg.is_pure_guard(cur.test):
            t, pol = pycfg._norm_guard(cur.test)
            if child in cur.body:
                out.add((t, pol))
            elif child in cur.orelse:
                out.add((t, not pol))
                # an elif arm also knows the earlier tests were false: handled by the parent If's orelse
        child, cur = cur, getattr(cur, "_parent", None)
    return frozenset(out)


def _consistent(*tagsets) -> bool:
    facts = {}
    for ts in tagsets:
        for t, v in ts:
            if facts.setdefault(t, v) != v:
                return False
    return True


def _r14a(rep, files):
    rep.rule("R14a", "no slot view A[i] that has been retained (appended / stored as a result) is afterwards overwritten through an alias of A at the same slot (aliases, retentions and stores are correlated through their option guards)", 8)
    for rel in files:
        for cls, fn in functions(rel):
            alias_edges = []  # (name, target, guards)
            views = {}  # name -> (base, index text, guards)
            for s in ast.walk(fn):
                if isinstance(s, ast.Assign) and len(s.targets) == 1:
                    t, v = s.targets[0], s.value
                    if isinstance(t, ast.Name) and isinstance(v, ast.Name):
                        alias_edges.append((t.id, v.id, _guards(s)))
                    elif isinstance(t, ast.Name) and isinstance(v, ast.Subscript) and isinstance(v.value, ast.Name):
                        views[t.id] = (v.value.id, core.src(v.slice), _guards(s))

            def roots(n, tags=frozenset(), depth=0):
                """All (root object, guards under which n aliases it)."""
                out = [(n, tags)]
                if depth < 4:
                    for a, b, g in alias_edges:
                        if a == n and _consistent(tags, g):
                            out += roots(b, tags | g, depth + 1)
                return out

            stores, retains = [], []
            for s in ast.walk(fn):
                if isinstance(s, ast.Assign):
                    for t in s.targets:
                        for tt in (t.elts if isinstance(t, ast.Tuple) else [t]):
                            if isinstance(tt, ast.Subscript) and isinstance(tt.value, ast.Name):
                                for r, g in roots(tt.value.id):
                                    stores.append((s.lineno, r, core.src(tt.slice), g | _guards(s), s))
                    if isinstance(s.value, ast.Name) and s.value.id in views and any(isinstance(t, ast.Attribute) for t in s.targets):
                        b, ix, g0 = views[s.value.id]
                        for r, g in roots(b):
                            retains.append((s.lineno, r, ix, g | g0 | _guards(s), s))
                elif isinstance(s, ast.AugAssign) and isinstance(s.target, ast.Subscript) and isinstance(s.target.value, ast.Name):
                    for r, g in roots(s.target.value.id):
                        stores.append((s.lineno, r, core.src(s.target.slice), g | _guards(s), s))
                elif isinstance(s, ast.Expr) and isinstance(s.value, ast.Call) and isinstance(s.value.func, ast.Attribute) and s.value.func.attr in ("append", "extend", "insert") and s.value.args:
                    a = s.value.args[-1]
                    if isinstance(a, ast.Name) and a.id in views:
                        b, ix, g0 = views[a.id]
                        for r, g in roots(b):
                            retains.append((s.lineno, r, ix, g | g0 | _guards(s), s))
                    elif isinstance(a, ast.Subscript) and isinstance(a.value, ast.Name):
                        for r, g in roots(a.value.id):
                            retains.append((s.lineno, r, core.src(a.slice), g | _guards(s), s))
            seen = set()
            for ln, r, ix, g, node in retains:
                if (ln, r, ix) in seen:
                    continue
                seen.add((ln, r, ix))
                clash = [e for e in stores if e[1] == r and e[2] == ix and (e[0] > ln or _same_loop(node, e[4])) and _consistent(g, e[3])]
                rep.instance("R14a", rel, core.qualname_of(fn), f"retained view {r}[{ix}] via '{core.norm(core.src(node), 60)}'", not clash,
                             f"the retained view of {r}[{ix}] is overwritten by '{core.norm(core.src(clash[0][4]), 80)}' (line {clash[0][0]}) on the option path {sorted(g | clash[0][3])}: what was stored as one result now holds another" if clash else "",
                             line=ln)


def _same_loop(a, b):
    def loops(n):
        out = []
        cur = getattr(n, "_parent", None)
        while cur is not None:
            if isinstance(cur, (ast.For, ast.While)):
                out.append(cur)
            cur = getattr(cur, "_parent", None)
        return out

    return bool(set(map(id, loops(a))) & set(map(id, loops(b)))) and b.lineno > a.lineno


# ---------------------------------------------------------------------------
# R14b definite assignment over option paths
# ---------------------------------------------------------------------------


def _option_fact(text: str) -> bool:
    """A guard that tests an option: self._flag, a parameter, or their None-ness; not data."""
    try:
        t = ast.parse(text, mode="eval").body
    except SyntaxError:
        return False
    if isinstance(t, ast.Compare):
        if len(t.ops) == 1 and isinstance(t.ops[0], (ast.Is, ast.IsNot)) and isinstance(t.comparators[0], ast.Constant) and t.comparators[0].value is None:
            t = t.left
        else:
            return False
    if isinstance(t, ast.Name):
        return True
    if isinstance(t, ast.Attribute) and isinstance(t.value, ast.Name) and t.value.id == "self":
        return True
    if isinstance(t, ast.Call) and core.src(t.func) == "phonoc.use_openmp":
        return True
    return False


def _r14b(rep, files):
    rep.rule("R14b", "every local read in a phonon-result producer is bound on every feasible option path (guard-correlated definite assignment; for-loops assumed to run at least once; enum dispatch assumed exhaustive)", 100)
    rep.assume("R14b: 'for' loops iterate at least once; chains of == tests on one expression are exhaustive; a class's __init__ implication 'if b: self._a = True' holds")
    for rel in files:
        for cls, fn in functions(rel):
            imp = pycfg.flag_implications(cls) if cls is not None else []
            findings = pycfg.possibly_unbound(fn, imp)
            real = []
            for f in findings:
                facts = sorted(f.world.facts)
                if not all(_option_fact(t) or all((t, v) in w.facts for w in f.worlds) for t, v in facts):
                    continue  # the witness needs a data-dependent condition that is not a path condition of the use
                if _bound_only_in_loop(fn, f.name, f.node):
                    continue
                real.append(f)
            qn = core.qualname_of(fn)
            if not real:
                rep.instance("R14b", rel, qn, "all local reads bound on every option path", True, nontrivial=bool(findings) or len(fn.body) > 3)
            for f in real:
                facts = ", ".join(f"{t}={v}" for t, v in sorted(f.world.facts))
                rep.instance("R14b", rel, qn, f"'{f.name}' read in '{core.norm(core.src(_stmt_of(f.node)), 70)}'", False,
                             f"'{f.name}' is unbound on the option path [{facts}]: UnboundLocalError / stale value for this option combination", line=f.node.lineno)


def _stmt_of(n):
    while n is not None and not isinstance(n, ast.stmt):
        n = getattr(n, "_parent", None)
    return n


def _bound_only_in_loop(fn, name, use) -> bool:
    """The name is bound as a for-target or inside a for body that precedes the use (zero-trip idiom)."""
    for n in ast.walk(fn):
        if isinstance(n, ast.For) and n.end_lineno < use.lineno:
            if name in {x.id for x in ast.walk(n.target) if isinstance(x, ast.Name)}:
                return True
            for b in ast.walk(n):
                if isinstance(b, ast.Name) and isinstance(b.ctx, ast.Store) and b.id == name:
                    return True
    return False


# ---------------------------------------------------------------------------
# R14c one eigenvalue -> frequency conversion
# ---------------------------------------------------------------------------


def _r14c(rep):
    rep.rule("R14c", "every eigenvalue->frequency conversion is sign(l)*sqrt|l|*factor applied to eigenvalues obtained from eigh/eigvalsh", 11)
    lam, fac = sp.Symbol("lam", real=True), sp.Symbol("factor", positive=True)
    want = sp.sqrt(sp.Abs(lam)) * sp.sign(lam) * fac
    n_sites = 0
    for rel in core.python_files("phonopy"):
        if "/interface/" in rel or "/scripts/" in rel or "/cui/" in rel:
            continue
        tree = core.parse(rel)
        for call in ast.walk(tree):
            if not (isinstance(call, ast.Call) and core.src(call.func) in ("np.sqrt", "numpy.sqrt") and call.args):
                continue
            inner = call.args[0]
            if not (isinstance(inner, ast.Call) and core.src(inner.func) in ("abs", "np.abs", "numpy.abs") and inner.args):
                continue
            x = inner.args[0]
            # climb to the maximal arithmetic expression
            top = call
            while True:
                par = getattr(top, "_parent", None)
                if isinstance(par, ast.BinOp) and isinstance(par.op, (ast.Mult, ast.Div)):
                    top = par
                elif isinstance(par, ast.Call) and core.src(par.func) in ("np.array", "np.asarray") and par.args and par.args[0] is top:
                    top = par
                else:
                    break
            fn = core.enclosing_function(call)
            qn = core.qualname_of(call)
            xtext = core.src(x)

            def hook(node, tr, env, xtext=xtext):
                f = core.src(node.func)
                if f in ("abs", "np.abs"):
                    return sp.Abs(tr.expr(node.args[0], env))
                if f in ("np.array", "np.asarray") and node.args:
                    return tr.expr(node.args[0], env)
                return None

            names = {}
            tr = symalg.PyTranslator(names, call_hook=hook, attr_hook=lambda t, xt=xtext: lam if t == xt else (fac if t.endswith("factor") else None), where=f"{rel}::{qn}")
            tr.names[xtext] = lam
            for nm in ("factor", "self._factor"):
                tr.names[nm] = fac
            try:
                got = tr.expr(top, {xtext: lam} if isinstance(x, ast.Name) else {})
            except AnalysisError:
                continue  # sqrt(abs(.)) in some other formula (not a frequency conversion)
            if not got.has(fac):
                # e.g. band structure distance or a different quantity
                if not got.has(sp.sign(lam)):
                    continue
            n_sites += 1
            ok, how = symalg.is_zero(sp.simplify(got - want), ("cancel", "simplify"))
            exc = UNSIGNED_OK.get((rel, qn))
            if not ok and exc and symalg.is_zero(sp.simplify(got - sp.sqrt(sp.Abs(lam)) * fac))[0]:
                rep.instance("R14c", rel, qn, f"{core.norm(core.src(top), 90)} (unsigned by design: {exc})", True, line=call.lineno, nontrivial=False)
                continue
            rep.instance("R14c", rel, qn, core.norm(core.src(top), 100), ok, f"this access path converts eigenvalues to frequencies as {got}, the others as sign(l)*sqrt|l|*factor", line=call.lineno,
                         sample={"site": qn, "normal_form": str(got)})
    if n_sites < 8:  # 11 on the confirmed tree; a shared helper may merge a few of them
        raise AnalysisError(f"R14c: {n_sites} conversion sites found, 11 confirmed by reading")


# ---------------------------------------------------------------------------
# R14d sibling-call agreement
# ---------------------------------------------------------------------------


def _arm_call(stmts):
    calls = []
    for s in stmts:
        v = s.value if isinstance(s, (ast.Assign, ast.AnnAssign, ast.Expr, ast.Return)) else None
        if isinstance(v, ast.Call):
            calls.append(v)
        else:
            return None
    return calls[0] if len(calls) == 1 else None


def _r14d(rep):
    rep.rule("R14d", "when the two arms of an 'if' call the same function or construct sibling classes, a keyword common to both carries the same value unless the test itself selects that value", 30)
    idx = pyabs.Index()
    for rel in core.python_files("phonopy"):
        if "/scripts/" in rel:
            continue
        for node in ast.walk(core.parse(rel)):
            if not (isinstance(node, ast.If) and node.orelse):
                continue
            a, b = _arm_call(node.body), _arm_call(node.orelse)
            if a is None or b is None:
                continue
            na = a.func.id if isinstance(a.func, ast.Name) else (a.func.attr if isinstance(a.func, ast.Attribute) else None)
            nb = b.func.id if isinstance(b.func, ast.Name) else (b.func.attr if isinstance(b.func, ast.Attribute) else None)
            sib = na == nb and na is not None
            if not sib and na in idx.classes and nb in idx.classes:
                ma = {c.name for c in idx.mro(idx.classes[na][1])}
                mb = {c.name for c in idx.mro(idx.classes[nb][1])}
                sib = bool(ma & mb)
            if not sib or na in ("print", "append", "add_argument", "write", "warn"):
                continue
            fn_ = core.enclosing_function(node)

            def kwargs(call):
                out = {k.arg: k.value for k in call.keywords if k.arg}
                for k in call.keywords:
                    if k.arg is None and isinstance(k.value, ast.Name) and fn_ is not None:
                        d = core.resolve_name(fn_, k.value)  # **params with params a dict literal bound once
                        if isinstance(d, ast.Dict):
                            for kk, vv in zip(d.keys, d.values):
                                if isinstance(kk, ast.Constant) and isinstance(kk.value, str):
                                    out.setdefault(kk.value, vv)
                return out

            ka, kb = kwargs(a), kwargs(b)
            test_names = {n.id for n in ast.walk(node.test) if isinstance(n, ast.Name)} | {core.src(n) for n in ast.walk(node.test) if isinstance(n, ast.Attribute)}
            # a keyword only one arm passes although the sibling class of the other arm accepts it too
            if na != nb and na in idx.classes and nb in idx.classes:
                def init_params(cname):
                    for c in idx.mro(idx.classes[cname][1]):
                        for m in c.body:
                            if isinstance(m, ast.FunctionDef) and m.name == "__init__":
                                ps = m.args.args + m.args.kwonlyargs
                                ds = [None] * (len(m.args.args) - len(m.args.defaults)) + list(m.args.defaults) + list(m.args.kw_defaults)
                                return {p_.arg: d for p_, d in zip(ps, ds)}
                    return {}

                for (kx, ky, nx, ny) in ((ka, kb, na, nb), (kb, ka, nb, na)):
                    accepts = init_params(ny)
                    for k in sorted(set(kx) - set(ky)):
                        if k not in accepts:
                            continue
                        dflt = accepts[k]
                        v = core.src(kx[k])
                        same_as_default = dflt is not None and core.src(dflt) == v
                        selected = bool(({n.id for n in ast.walk(kx[k]) if isinstance(n, ast.Name)} | {v}) & test_names)
                        rep.instance("R14d", rel, core.qualname_of(node), f"if {core.norm(core.src(node.test), 40)}: only {nx}(...) passes {k}={v}; {ny} accepts it too", same_as_default or selected,
                                     f"{nx} is given {k}={v} but {ny}, built in the other arm for the same request, accepts '{k}' as well and is left at its default ({core.src(dflt) if dflt is not None else 'required'}): the two access paths (stored and iterated mesh) are configured differently, e.g. frequencies in different units whenever the value differs from the default", line=node.lineno)
            common = sorted(ka.keys() & kb.keys())
            if not common:
                continue
            for k in common:
                va, vb = core.src(ka[k]), core.src(kb[k])
                same = va == vb
                selected = bool(({n.id for n in ast.walk(ka[k]) if isinstance(n, ast.Name)} | {n.id for n in ast.walk(kb[k]) if isinstance(n, ast.Name)} | {va, vb}) & test_names)
                rep.instance("R14d", rel, core.qualname_of(node), f"if {core.norm(core.src(node.test), 40)}: {na}({k}={va}) else: {nb}({k}={vb})", same or selected or k in ("help", "msg", "message"),
                             f"the two arms pass different values for '{k}' ({va} vs {vb}) although the test does not concern it: the two access paths are configured differently", line=node.lineno,
                             nontrivial=True)


# ---------------------------------------------------------------------------
# R14e written files read the reported attributes
# ---------------------------------------------------------------------------


def _r14e(rep):
    rep.rule("R14e", "file writers of the result classes read only attributes that a public property of the class returns (or constructor inputs): a file cannot contain other numbers than the API", 6)
    for rel, cname in (("phonopy/phonon/qpoints.py", "QpointsPhonon"), ("phonopy/phonon/mesh.py", "Mesh"), ("phonopy/phonon/band_structure.py", "BandStructure")):
        cdef = core.find_def(rel, cname)
        idx = pyabs.Index.__new__(pyabs.Index)
        # attributes returned by public properties / getters (own class and bases in the same file)
        classes = [cdef] + [c for c in ast.walk(core.parse(rel)) if isinstance(c, ast.ClassDef) and c.name in {core.src(b) for b in cdef.bases}]
        exposed = set()
        init_inputs = set()
        for c in classes:
            for m in c.body:
                if not isinstance(m, ast.FunctionDef):
                    continue
                if m.name == "__init__":
                    params = {a.arg for a in m.args.args}
                    for s in ast.walk(m):
                        if isinstance(s, ast.Assign) and isinstance(s.targets[0], ast.Attribute) and core.src(s.targets[0]).startswith("self."):
                            init_inputs.add(core.src(s.targets[0]))
                if any(core.src(d) == "property" for d in m.decorator_list) or (m.name.startswith("get_") and not m.name.startswith("get__")):
                    for r in ast.walk(m):
                        if isinstance(r, ast.Return) and r.value is not None:
                            for n in ast.walk(r.value):
                                if isinstance(n, ast.Attribute) and core.src(n).startswith("self._") and isinstance(n.value, ast.Name):
                                    exposed.add(core.src(n))
        for c in classes:
            for m in c.body:
                if isinstance(m, ast.FunctionDef) and (m.name.startswith("write_") or m.name.startswith("_write")):
                    reads = {core.src(n) for n in ast.walk(m) if isinstance(n, ast.Attribute) and isinstance(n.value, ast.Name) and n.value.id == "self" and n.attr.startswith("_") and not isinstance(getattr(n, "_parent", None), ast.Call) or False}
                    reads = {r for r in reads if not any(isinstance(x, ast.Call) and core.src(x.func) == r for x in ast.walk(m))}
                    extra = sorted(r for r in reads if r not in exposed and r not in init_inputs)
                    rep.instance("R14e", rel, f"{c.name}.{m.name}", f"reads {sorted(reads)[:8]}", not extra,
                                 f"the writer reads {extra}, which no public property returns: the file can differ from what the API reports", line=m.lineno)


# ---------------------------------------------------------------------------



def _r14i(rep):
    """Files contain the numbers of the results: between the stored eigenvector array and the formatted / stored value
    only indexing, transposition, reshaping and the split into real and imaginary part may happen."""
    rep.rule("R14i", "writers copy eigenvectors: in every write_* function the value that is formatted or handed to the hdf5 writer is an element of the stored eigenvector array reached by indexing / .T / reshape / iteration / .real / .imag only; conjugation, negation, absolute value or arithmetic on the way is a report; with the element spelling x[q, 3*atom + xyz, band] the band index is the variable that enumerates the frequencies written next to it", 5)
    n_inst = 0
    for rel in ("phonopy/phonon/mesh.py", "phonopy/phonon/qpoints.py", "phonopy/phonon/band_structure.py"):
        tree = core.parse(rel)
        for fn in [x for x in ast.walk(tree) if isinstance(x, ast.FunctionDef) and "write" in x.name]:
            if "eigenvectors" not in core.src(fn):
                continue
            tainted = {"eigenvectors"} if any(a.arg == "eigenvectors" for a in fn.args.args) else set()

            def is_src(e):
                return (isinstance(e, ast.Attribute) and e.attr in ("_eigenvectors", "eigenvectors")) or (isinstance(e, ast.Name) and e.id in tainted)

            def derived(e):
                return any(is_src(x) for x in ast.walk(e))

            changed = True
            while changed:
                changed = False
                for st in ast.walk(fn):
                    tg = []
                    if isinstance(st, ast.Assign) and derived(st.value):
                        tg = [t for t in st.targets]
                    elif isinstance(st, (ast.For, ast.comprehension)) and derived(st.iter):
                        tg = [st.target]
                    for t in tg:
                        for nm in ast.walk(t):
                            if isinstance(nm, ast.Name) and nm.id not in tainted:
                                # enumerate(...) counters are plain integers
                                it = getattr(st, "iter", None)
                                if isinstance(it, ast.Call) and core.src(it.func) == "enumerate" and isinstance(t, ast.Tuple) and nm is t.elts[0]:
                                    continue
                                tainted.add(nm.id)
                                changed = True
            bad = []
            reads = 0
            for x in ast.walk(fn):
                if isinstance(x, ast.Attribute) and x.attr in ("real", "imag") and derived(x.value):
                    reads += 1
                if isinstance(x, ast.Call) and core.src(x.func).endswith("create_dataset") and any(derived(k.value) for k in x.keywords if k.arg == "data"):
                    reads += 1
                if isinstance(x, ast.Call) and isinstance(x.func, ast.Attribute) and x.func.attr in ("conj", "conjugate") and derived(x.func.value):
                    bad.append((x, "complex conjugation"))
                if isinstance(x, ast.Call) and core.src(x.func) in ("np.conj", "np.conjugate", "np.abs", "abs", "np.negative") and x.args and derived(x.args[0]):
                    bad.append((x, core.src(x.func)))
                if isinstance(x, ast.UnaryOp) and isinstance(x.op, ast.USub) and derived(x.operand):
                    bad.append((x, "negation"))
                if isinstance(x, ast.BinOp) and not (isinstance(x.op, ast.Mod) and isinstance(x.left, ast.Constant)) and not (isinstance(x.op, ast.Mod) and isinstance(x.left, (ast.Constant, ast.BinOp, ast.JoinedStr))) and (derived(x.left) or derived(x.right)):
                    # index arithmetic inside a subscript of the array is not arithmetic on its values
                    par = getattr(x, "_parent", None)
                    inside_index = False
                    cur = x
                    while par is not None and par is not fn:
                        if isinstance(par, ast.Subscript) and cur is par.slice:
                            inside_index = True
                            break
                        cur, par = par, getattr(par, "_parent", None)
                    if not inside_index and not isinstance(x.left, ast.Constant):
                        bad.append((x, "arithmetic"))
            if not reads:
                continue
            n_inst += 1
            rep.instance("R14i", rel, core.qualname_of(fn), f"{reads} eigenvector values written; derived names {sorted(tainted)}", not bad,
                         f"{bad[0][1] if bad else ''} is applied to the eigenvectors on their way into the file ('{core.norm(core.src(bad[0][0]), 70) if bad else ''}'): the file holds eigenvectors of another matrix (the conjugates are eigenvectors of D(-q)) wherever the dynamical matrix is complex, while the in-memory results and the other writers do not", line=(bad[0][0].lineno if bad else fn.lineno))
            # element spelling: the band index
            for x in ast.walk(fn):
                if isinstance(x, ast.Attribute) and x.attr == "real" and isinstance(x.value, ast.Subscript):
                    sub = x.value
                    idx = sub.slice.elts if isinstance(sub.slice, ast.Tuple) else [sub.slice]
                    if len(idx) >= 2 and {type(idx[-1]), type(idx[-2])} == {ast.Name, ast.BinOp}:
                        if not isinstance(idx[-1], ast.Name):
                            n_inst += 1
                            rep.instance("R14i", rel, core.qualname_of(fn), f"element {core.src(sub)}", False, "the band index is not the last index of the eigenvector array (eigenvectors are the columns of the matrix stored per q-point)", line=x.lineno)
                            continue
                        band = idx[-1].id
                        loops = []
                        cur = getattr(x, "_parent", None)
                        while cur is not None and cur is not fn:
                            if isinstance(cur, ast.For) and band in {n_.id for n_ in ast.walk(cur.target) if isinstance(n_, ast.Name)}:
                                if isinstance(cur.target, ast.Tuple) and isinstance(cur.iter, ast.Call) and core.src(cur.iter.func) == "enumerate" and isinstance(cur.target.elts[0], ast.Name) and cur.target.elts[0].id == band:
                                    loops.append(cur)
                                break
                            cur = getattr(cur, "_parent", None)
                        ok_b = len(loops) == 1 and "freq" in core.src(loops[0].iter)
                        mid = core.src(idx[-2]).replace(" ", "")
                        ok_m = bool(re.fullmatch(r"(\w+)\*3\+(\w+)|3\*(\w+)\+(\w+)", mid))
                        n_inst += 1
                        rep.instance("R14i", rel, core.qualname_of(fn), f"element {core.src(sub)}: band index {band}, row {mid}", ok_b and ok_m,
                                     "the eigenvector element written for (band, atom, xyz) is not x[..., 3*atom + xyz, band] with the band index of the frequency written next to it", line=x.lineno)
    if n_inst < 5:
        raise AnalysisError(f"R14i: only {n_inst} eigenvector writer sites found (6 confirmed by reading)")



def _r14l(rep):
    """One notion of 'zone centre': the q-point list and the dynamical-matrix object agree on which q get the NAC direction."""
    QP = "phonopy/phonon/qpoints.py"
    DMF = "phonopy/harmonic/dynamical_matrix.py"
    rep.rule("R14l", "zone-centre test of the q-point list: the test that decides whether nac_q_direction is handed to DynamicalMatrixNAC.run treats at least every q with |q| below DynamicalMatrixNAC.Q_DIRECTION_TOLERANCE as the zone centre -- otherwise run(q) without a direction classifies the point as Gamma itself and drops the non-analytical term, while the OpenMP branch, the band path and a direct call keep it", 1)
    cls = core.find_def(DMF, "DynamicalMatrixNAC")
    tol = [st.value.value for st in cls.body if isinstance(st, ast.Assign) and core.src(st.targets[0]) == "Q_DIRECTION_TOLERANCE" and isinstance(st.value, ast.Constant)]
    if len(tol) != 1:
        raise AnalysisError("DynamicalMatrixNAC.Q_DIRECTION_TOLERANCE is no longer a literal")
    fn = core.find_def(QP, "QpointsPhonon._get_dynamical_matrix")
    sites = []
    for node in ast.walk(fn):
        if isinstance(node, ast.If) and any(isinstance(c, ast.Call) and core.src(c.func).endswith(".run") and any(k.arg == "q_direction" for k in c.keywords) for st in node.body for c in ast.walk(st)):
            sites.append(node)
    if len(sites) != 1:
        raise AnalysisError(f"QpointsPhonon._get_dynamical_matrix: {len(sites)} branches hand a q_direction to run(), 1 expected")
    test = sites[0].test
    conj = test.values if isinstance(test, ast.BoolOp) and isinstance(test.op, ast.And) else [test]
    width = None
    shown = None
    for c in conj:
        t = core.src(c).replace(" ", "")
        m = re.fullmatch(r"\(np\.abs\((\w+)\)<([^)]+)\)\.all\(\)", t)
        if m:
            shown = core.src(c)
            rhs = m.group(2)
            width = tol[0] if rhs.endswith("Q_DIRECTION_TOLERANCE") else (float(rhs) if re.fullmatch(r"[0-9.eE+-]+", rhs) else None)
        elif isinstance(c, ast.Call) and core.src(c.func) in ("np.allclose", "np.isclose") and len(c.args) >= 2 and core.src(c.args[1]) in ("0", "0.0"):
            shown = core.src(c)
            at = [k.value for k in c.keywords if k.arg == "atol"]
            width = float(at[0].value) if at and isinstance(at[0], ast.Constant) else (1e-8 if not at else None)
        elif isinstance(c, ast.Compare) and "np.linalg.norm" in t and len(c.comparators) == 1 and isinstance(c.ops[0], (ast.Lt, ast.LtE)):
            shown = core.src(c)
            r = core.src(c.comparators[0])
            width = tol[0] if r.endswith("Q_DIRECTION_TOLERANCE") else (float(r) if re.fullmatch(r"[0-9.eE+-]+", r) else None)
    if shown is None:
        raise AnalysisError(f"QpointsPhonon._get_dynamical_matrix: no zone-centre test recognised in '{core.norm(core.src(test), 80)}'")
    rep.instance("R14l", QP, "QpointsPhonon._get_dynamical_matrix", f"{shown}: window {width} vs Q_DIRECTION_TOLERANCE {tol[0]}", width is not None and width >= tol[0] * (1 - 1e-12),
                 f"the q-point list hands the NAC direction to run() only for |q| below {width}, but run(q) without a direction treats every |q| < {tol[0]} as the zone centre and leaves the non-analytical term out: a q-point in between (2e-7 from a text file) loses the LO-TO splitting on this path and keeps it on the OpenMP, band-path and direct routes", line=sites[0].lineno)


def _r14n(rep):
    """Band connection: every per-band quantity is reordered by the same permutation in the same direction."""
    rep.rule("R14n", "band connection along a path: eigenvalues, eigenvectors and group velocities of a q-point are all reordered by the same use of the band order (all gathered, x[order], or all scattered, x[order] = ...): a gather for one and a scatter for another applies the permutation to one and its inverse to the other, which differ for any cyclic exchange of three or more bands", 3)
    rel = "phonopy/phonon/band_structure.py"
    fn = core.find_def(rel, "BandStructure._solve_dm_on_path")
    orders = set()
    for st in ast.walk(fn):
        if isinstance(st, ast.Assign) and isinstance(st.value, ast.Call) and core.src(st.value.func).split(".")[-1] == "estimate_band_connection" and isinstance(st.targets[0], ast.Name):
            orders.add(st.targets[0].id)
    if not orders:
        raise AnalysisError("R14n: BandStructure._solve_dm_on_path no longer takes the band order from estimate_band_connection")
    changed = True
    lists = set()
    while changed:  # lists the order is appended to, loop variables over such lists
        changed = False
        for x in ast.walk(fn):
            if isinstance(x, ast.Call) and isinstance(x.func, ast.Attribute) and x.func.attr == "append" and isinstance(x.func.value, ast.Name) and x.args and isinstance(x.args[0], ast.Name) and x.args[0].id in orders and x.func.value.id not in lists:
                lists.add(x.func.value.id)
                changed = True
            if isinstance(x, ast.For):
                it = x.iter
                if isinstance(it, ast.Call) and core.src(it.func) in ("enumerate", "zip"):
                    pairs = list(zip(x.target.elts[1:] if core.src(it.func) == "enumerate" and isinstance(x.target, ast.Tuple) else (x.target.elts if isinstance(x.target, ast.Tuple) else []), it.args))
                else:
                    pairs = [(x.target, it)]
                for t, a in pairs:
                    if isinstance(t, ast.Name) and isinstance(a, ast.Name) and a.id in lists and t.id not in orders:
                        orders.add(t.id)
                        changed = True
    uses = []
    for x in ast.walk(fn):
        if isinstance(x, ast.Subscript) and any(isinstance(n_, ast.Name) and n_.id in orders for n_ in ast.walk(x.slice)):
            kind = "scatter" if isinstance(x.ctx, ast.Store) else "gather"
            uses.append((x, kind))
    if len(uses) < 3:
        raise AnalysisError(f"R14n: only {len(uses)} reorderings by the band order found in _solve_dm_on_path (eigenvalues, eigenvectors, group velocities expected)")
    kinds = [k for _, k in uses]
    major = max(set(kinds), key=kinds.count)
    for x, k in uses:
        rep.instance("R14n", rel, "BandStructure._solve_dm_on_path", f"{core.norm(core.src(x), 60)} : {k}", k == major,
                     f"'{core.norm(core.src(x), 60)}' is a {k} by the band order while the other per-band quantities are {major}ed: this quantity receives the inverse permutation, so after a cyclic exchange of three or more bands its entries belong to other bands than the frequencies reported next to them", line=x.lineno)


def selftest():
    V = []
    b = lambda name, file, old, new, rule, expect="", **kw: V.append(dict(name=name, kind="break", file=file, old=old, new=new, rule=rule, expect=expect, **kw))
    n = lambda name, file, old, new, **kw: V.append(dict(name=name, kind="neutral", file=file, old=old, new=new, **kw))
    BSF = "phonopy/phonon/band_structure.py"
    TPF_ = "phonopy/phonon/thermal_properties.py"
    b("thermal properties convert the mesh's own frequency array in place", TPF_, "        self._frequencies = (\n            np.array(self._frequencies, dtype=\"double\", order=\"C\") * THzToEv\n        )", "        self._frequencies = np.ascontiguousarray(self._frequencies, dtype=\"double\")\n        self._frequencies *= THzToEv", "R14y.condcopy", "ThermalPropertiesBase.__init__")
    n("thermal properties convert a fresh copy in place", TPF_, "        self._frequencies = (\n            np.array(self._frequencies, dtype=\"double\", order=\"C\") * THzToEv\n        )", "        self._frequencies = np.array(self._frequencies, dtype=\"double\", order=\"C\")\n        self._frequencies *= THzToEv")
    b("group velocities scattered by the band order", "phonopy/phonon/band_structure.py", "                    gv_on_path.append(gv[i][band_order])", "                    gv_sorted = np.zeros_like(gv[i])\n                    gv_sorted[band_order] = gv[i]\n                    gv_on_path.append(gv_sorted)", "R14n", "_solve_dm_on_path")
    b("band connection by independent argmax", BSF, "    band_order = [connection_order[x] for x in prev_band_order]", "    connection_order = np.argmax(metric, axis=1)\n    band_order = [int(connection_order[x]) for x in prev_band_order]", "R14h", "estimate_band_connection")
    b("band connection forgets to exclude used bands", BSF, "            if i in connection_order:\n                continue\n", "", "R14h", "estimate_band_connection")
    n("band connection exclusion written as a guard", BSF, "            if i in connection_order:\n                continue\n            if val > maxval:", "            if i not in connection_order and val > maxval:")
    b("qpoints: eigenvectors share the dynamical-matrix buffer again", "phonopy/phonon/qpoints.py", "                eigenvectors = np.zeros_like(dynmat)\n", "                eigenvectors = dynmat\n", "R14a", "dynmat")
    b("itermesh: eigenvectors unbound without with_eigenvectors", "phonopy/phonon/mesh.py", "                eigenvectors = None\n", "", "R14b", "eigenvectors")
    b("mesh: frequency conversion loses the sign", "phonopy/phonon/mesh.py", "np.sqrt(abs(eigenvalues)) * np.sign(eigenvalues),", "np.sqrt(abs(eigenvalues)),", "R14c", "", nth=0)
    b("band structure: factor applied twice", "phonopy/phonon/band_structure.py", "np.sqrt(abs(eigs_path)) * np.sign(eigs_path) * self._factor", "np.sqrt(abs(eigs_path)) * np.sign(eigs_path) * self._factor * self._factor", "R14c", "")
    b("init_mesh: IterMesh gets the raw gamma-centre flag", "phonopy/api_phonopy.py", "                is_gamma_center=_is_gamma_center,\n                rotations=self._primitive_symmetry.pointgroup_operations,\n                factor=self._factor,\n            )\n        else:", "                is_gamma_center=is_gamma_center,\n                rotations=self._primitive_symmetry.pointgroup_operations,\n                factor=self._factor,\n            )\n        else:", "R14d", "is_gamma_center")
    b("qpoints writer recomputes from eigenvalues", "phonopy/phonon/qpoints.py", "    def write_hdf5(self, filename=\"qpoints.hdf5\"):\n        \"\"\"Write results in hdf5.\"\"\"\n", "    def write_hdf5(self, filename=\"qpoints.hdf5\"):\n        \"\"\"Write results in hdf5.\"\"\"\n        _tmp = self._natom_cache\n", "R14e", "write_hdf5")
    b("group velocity: perturbation direction only stored when given", "phonopy/phonon/group_velocity.py", "        if perturbation is None:\n            # Give an random direction to break symmetry\n            self._directions[0] = np.array([1, 2, 3])\n        else:\n            self._directions[0] = np.dot(self._reciprocal_lattice, perturbation)\n        self._directions[0] /= np.linalg.norm(self._directions[0])", "        if perturbation is not None:\n            direction = np.dot(self._reciprocal_lattice, perturbation)\n            self._directions[0] = direction / np.linalg.norm(direction)", "R14f", "_directions")
    b("band structure: NAC direction built from Cartesian end points", "phonopy/phonon/band_structure.py", "                q_direction = path[0] - path[-1]", "                q_direction = rec_lat @ path[0] - rec_lat @ path[-1]", "R14g", "_solve_dm_on_path")
    b("NAC run: direction contracted with the transposed reciprocal lattice", "phonopy/harmonic/dynamical_matrix.py", "            q_norm = np.linalg.norm(self._rec_lat @ q_direction)", "            q_norm = np.linalg.norm(self._rec_lat.T @ q_direction)", "R14g", "DynamicalMatrixNAC.run")
    n("qpoints: allocate eigenvectors with empty_like", "phonopy/phonon/qpoints.py", "                eigenvectors = np.zeros_like(dynmat)\n", "                eigenvectors = np.empty_like(dynmat)\n")
    b("qpoints: share buffer under the wrong flag", "phonopy/phonon/qpoints.py", "            if self._with_dynamical_matrices:\n                # dynmat[i]", "            if not self._with_dynamical_matrices:\n                # dynmat[i]", "R14a", "dynmat")
    n("mesh: conversion written with np.abs and reordered", "phonopy/phonon/mesh.py", "np.sqrt(abs(eigenvalues)) * np.sign(eigenvalues),", "np.sign(eigenvalues) * np.sqrt(np.abs(eigenvalues)),", nth=0)
    b("mesh.yaml holds conjugated eigenvectors", "phonopy/phonon/mesh.py", "                                    self._eigenvectors[i, k * 3 + ll, j].imag,", "                                    self._eigenvectors[i, k * 3 + ll, j].conj().imag,", "R14i", "write_yaml")
    b("qpoints.yaml swaps band and row index", "phonopy/phonon/qpoints.py", "                                    self._eigenvectors[i][k * 3 + ll, j].real,", "                                    self._eigenvectors[i][j, k * 3 + ll].real,", "R14i", "element")
    b("run_mesh drops with_eigenvectors on the way to init_mesh", "phonopy/api_phonopy.py", "            with_eigenvectors=with_eigenvectors,\n            with_group_velocities=with_group_velocities,\n            is_gamma_center=is_gamma_center,\n        )\n        self._mesh.run()", "            with_group_velocities=with_group_velocities,\n            is_gamma_center=is_gamma_center,\n        )\n        self._mesh.run()", "R14j", "with_eigenvectors")
    b("q-point list tests the zone centre with np.allclose", "phonopy/phonon/qpoints.py", "            and (np.abs(q) < 1e-5).all()", "            and np.allclose(q, 0)", "R14l", "window")
    n("q-point list tests the zone centre with the class constant", "phonopy/phonon/qpoints.py", "            and (np.abs(q) < 1e-5).all()", "            and (np.abs(q) < DynamicalMatrixNAC.Q_DIRECTION_TOLERANCE).all()")
    return V
