"""C19 — thermal and random displacements: physical prefactors, one Bose-Einstein factor,
the sqrt(2) / conjugate-pair split (DESIGN §3 C19)."""

from __future__ import annotations

import ast

import sympy as sp

from engine import core, symalg
from engine.core import AnalysisError

TD = "phonopy/phonon/thermal_displacement.py"
RD = "phonopy/phonon/random_displacements.py"

HBAR, EVs, ANG, AMU, THZ, KB, THZ2EV = (sp.Symbol(n, positive=True) for n in ("Hbar", "EV", "Angstrom", "AMU", "THz", "Kb", "THzToEv"))
F, N_, M, T = sp.Symbol("f", positive=True), sp.Symbol("n", nonnegative=True), sp.Symbol("m", positive=True), sp.Symbol("T", positive=True)
UNITS = {"Hbar": HBAR, "EV": EVs, "Angstrom": ANG, "AMU": AMU, "THz": THZ, "Kb": KB, "THzToEv": THZ2EV}


def run(rep: core.Report):
    rep.rule("R19a", "prefactors: <u^2> per mode = hbar/(2 m w) (1+2n) and k_B T/(m w^2) in angstrom^2 for w = 2 pi f THz, m in AMU — for ThermalMotion._get_Q2 / masses and for RandomDisplacements sigma^2 / mass", 5)
    rep.rule("R19b", "one Bose-Einstein factor: bose_einstein_dist and ThermalMotion._get_population evaluate 1/(exp(THzToEv f/(Kb T)) - 1); the population is used for every T > 0", 4)
    rep.rule("R19d", "frame typing of the sampler's set-up: supercell positions are converted to primitive components with the matrix of matching orientation, phases contract primitive components with reduced q-points", 3)
    rep.rule("R19e", "independence of the normal variates of one sample: along every path through RandomDisplacements.run at most one random generator is constructed from the caller's seed (interprocedural count over the methods run calls)", 1)
    rep.rule("R19c", "conjugate-pair bookkeeping: q = -q+G points use real phases without the sqrt(2), the other points the sqrt(2) and (real, imag) parts with opposite signs; the partition is computed once", 5)
    want_q = HBAR * EVs * (N_ + sp.Rational(1, 2)) / (M * AMU * 2 * sp.pi * F * THZ) / ANG**2
    want_c = KB * EVs * T / (M * AMU * (2 * sp.pi * F * THZ) ** 2) / ANG**2

    # ThermalMotion._get_Q2 / (m*AMU)
    q2 = core.find_def(TD, "ThermalMotion._get_Q2")

    def hook(node, tr, env):
        if core.src(node.func) == "self._get_population":
            return N_
        return None

    tr = symalg.PyTranslator({**UNITS, "freq": F, "t": T}, call_hook=hook, where="ThermalMotion._get_Q2")
    br = tr.function(q2)
    e = sp.nsimplify(br[0].expr, rational=True)
    want_q2 = want_q.subs(THZ, sp.Integer(10) ** 12)  # _get_Q2 writes the literal 1e12 for THz
    ok, how = symalg.is_zero(sp.simplify(e / (M * AMU) - want_q2))
    rep.instance("R19a", TD, "ThermalMotion._get_Q2", "Q2 / (m AMU) == hbar (n + 1/2) / (m w) [angstrom^2], w = 2 pi f THz", ok, f"Q2/(m AMU) = {sp.simplify(e / (M * AMU))}, expected {want_q}", line=q2.lineno, sample={"Q2": str(e)})
    init = core.find_def(TD, "ThermalMotion.__init__")
    vals = {core.src(s.targets[0]): s.value for s in ast.walk(init) if isinstance(s, ast.Assign)}
    AMUS = sp.Symbol("AMU")
    def has_amu_once(node):
        if node is None:
            return False
        e = symalg.open_expr(core.src(node))
        return e.has(AMUS) and not sp.simplify(e / AMUS).has(AMUS)
    rep.instance("R19a", TD, "ThermalMotion.__init__", "self._masses and self._masses3 carry one factor AMU", has_amu_once(vals.get("self._masses")) and has_amu_once(vals.get("self._masses3")),
                 "the masses dividing Q2 are not in kg (AMU factor)", line=init.lineno)
    # RandomDisplacements
    rinit = core.find_def(RD, "RandomDisplacements.__init__")
    tr2 = symalg.PyTranslator(UNITS, where="RandomDisplacements.__init__")
    uc = {}
    for s in ast.walk(rinit):
        if isinstance(s, ast.Assign) and core.src(s.targets[0]) in ("self._unit_conversion", "self._unit_conversion_classical"):
            uc[core.src(s.targets[0])] = tr2.expr(s.value, symalg.local_env(tr2, rinit))
    if len(uc) != 2:
        raise AnalysisError("RandomDisplacements.__init__: unit conversion factors vanished")
    gs = core.find_def(RD, "RandomDisplacements._get_sigma")
    # by role: the amplitude is the first element of the returned pair; its value at the end of each arm of the
    # test on the distribution function, temporaries inlined
    sig = {}
    rets_ = [r.value for r in ast.walk(gs) if isinstance(r, ast.Return) and r.value is not None]
    r0 = core.resolve_name(gs, rets_[-1]) if rets_ else None
    sig_name = r0.elts[0].id if isinstance(r0, ast.Tuple) and r0.elts and isinstance(r0.elts[0], ast.Name) else None
    arms = [st for st in gs.body if isinstance(st, ast.If) and "_dist_func" in core.src(st.test) and "classical" in core.src(st.test)]
    test_, neg_ = (arms[0].test, False) if arms else (None, False)
    while isinstance(test_, ast.UnaryOp) and isinstance(test_.op, ast.Not):
        test_, neg_ = test_.operand, not neg_
    if sig_name is None or len(arms) != 1 or not isinstance(test_, ast.Compare) or not isinstance(test_.ops[0], (ast.Eq, ast.NotEq)):
        raise AnalysisError("RandomDisplacements._get_sigma: sigma expressions vanished (no returned amplitude / no test on the distribution function)")
    is_eq = isinstance(test_.ops[0], ast.Eq) != neg_
    fpar = gs.args.args[2].arg if len(gs.args.args) > 2 else "T"
    for key, arm in (("classical", arms[0].body if is_eq else arms[0].orelse), ("quantum", arms[0].orelse if is_eq else arms[0].body)):
        tr3 = symalg.PyTranslator({fpar: T, "freqs": F}, attr_hook=lambda t: uc.get(t), call_hook=lambda node, tr_, env_: N_ if core.src(node.func) == "bose_einstein_dist" else None, where="_get_sigma")
        env_ = {}
        for st in arm:
            if isinstance(st, ast.Assign) and len(st.targets) == 1 and isinstance(st.targets[0], ast.Name):
                env_[st.targets[0].id] = tr3.expr(st.value, env_)
        if sig_name in env_:
            sig[key] = env_[sig_name]
    if set(sig) != {"classical", "quantum"}:
        raise AnalysisError("RandomDisplacements._get_sigma: sigma expressions vanished")
    okq, _ = symalg.is_zero(sp.simplify(sig["quantum"] ** 2 / M - want_q))
    okc, _ = symalg.is_zero(sp.simplify(sig["classical"] ** 2 / M - want_c))
    rep.instance("R19a", RD, "RandomDisplacements._get_sigma", "sigma_quantum^2 / m == hbar (n + 1/2) / (m w) [angstrom^2 AMU / AMU]", okq, f"sigma^2/m = {sp.simplify(sig['quantum'] ** 2 / M)}, expected {want_q}", line=gs.lineno)
    rep.instance("R19a", RD, "RandomDisplacements._get_sigma", "sigma_classical^2 / m == k_B T / (m w^2)", okc, f"sigma^2/m = {sp.simplify(sig['classical'] ** 2 / M)}, expected {want_c}", line=gs.lineno)
    runf = core.find_def(RD, "RandomDisplacements.run")
    us = [s for s in ast.walk(runf) if isinstance(s, ast.Assign) and core.src(s.targets[0]) == "u"]
    oku = bool(us) and symalg.same(symalg.open_expr(core.src(us[0].value.args[0] if isinstance(us[0].value, ast.Call) else us[0].value)), symalg.open_expr("(u_ii + u_ij) / np.sqrt(mass * N)"))[0]
    rep.instance("R19a", RD, "RandomDisplacements.run", core.src(us[0]) if us else "<vanished>", oku, "displacements are not (u_ii + u_ij)/sqrt(m N) with N the number of commensurate points", line=runf.lineno)
    # constants
    u = symalg.fold_constants("phonopy/units.py")
    import math

    rep.instance("R19a", "phonopy/units.py", "Hbar", "Hbar == PlanckConstant / (2 pi); THzToEv == PlanckConstant * 1e12", abs(u["Hbar"] - u["PlanckConstant"] / (2 * math.pi)) < 1e-12 * u["Hbar"] and abs(u["THzToEv"] - u["PlanckConstant"] * 1e12) < 1e-12 * u["THzToEv"], "Hbar/THzToEv are not derived from the same Planck constant")

    # R19b
    want_n = 1 / (sp.exp(THZ2EV * F / (KB * T)) - 1)
    be = core.find_def(RD, "bose_einstein_dist")
    trb = symalg.PyTranslator({**UNITS, "x": F, "t": T}, where="bose_einstein_dist")
    eb = trb.function(be)[0].expr
    rep.instance("R19b", RD, "bose_einstein_dist", "1/(exp(THzToEv x/(Kb t)) - 1)", symalg.is_zero(sp.simplify(eb - want_n))[0], f"bose_einstein_dist is {eb}", line=be.lineno)
    gp = core.find_def(TD, "ThermalMotion._get_population")
    # by role: what the function returns directly, and what it stores into the array it returns
    pops = []
    returned = {r.value.id for r in ast.walk(gp) if isinstance(r, ast.Return) and isinstance(r.value, ast.Name)}
    trp = symalg.PyTranslator({**UNITS, gp.args.args[1].arg: F, gp.args.args[2].arg: T}, sub_hook=lambda t_, n_, tr_, env_: T if t_.startswith(gp.args.args[2].arg + "[") else None, where="_get_population")
    lenv = symalg.local_env(trp, gp)
    filled = {x.targets[0].value.id for x in ast.walk(gp) if isinstance(x, ast.Assign) and isinstance(x.targets[0], ast.Subscript) and isinstance(x.targets[0].value, ast.Name)}
    for r in ast.walk(gp):
        v = None
        if isinstance(r, ast.Return) and r.value is not None and not (isinstance(r.value, ast.Name) and r.value.id in filled) and not isinstance(core.resolve_name(gp, r.value), (ast.Name, ast.Constant)):
            v = core.resolve_name(gp, r.value)
        if isinstance(r, ast.Assign) and isinstance(r.targets[0], ast.Subscript) and isinstance(r.targets[0].value, ast.Name) and r.targets[0].value.id in returned:
            v = r.value
        if v is not None:
            pops.append((r, trp.expr(v, lenv)))
    if len(pops) < 2:
        raise AnalysisError("ThermalMotion._get_population: population expressions vanished")
    for r, e in pops:
        rep.instance("R19b", TD, "ThermalMotion._get_population", core.norm(core.src(r), 80), symalg.is_zero(sp.simplify(e - want_n))[0], f"the population is {e}, not the Bose-Einstein factor used by the sampler", line=r.lineno)
    # threshold on the temperature parameter (second parameter), whatever the local that holds it is called
    tpar = gp.args.args[2].arg if len(gp.args.args) > 2 else "t"
    conds = sorted({core.src(c).replace(tpar, "t") for c in ast.walk(gp) if isinstance(c, ast.Compare) and isinstance(c.left, ast.Name) and c.left.id == tpar and len(c.comparators) == 1 and isinstance(c.comparators[0], ast.Constant)})
    if not conds:
        raise AnalysisError("ThermalMotion._get_population: no threshold on the temperature found")
    rep.instance("R19b", TD, "ThermalMotion._get_population", f"condition = {conds}", conds == ["t > 0"],
                 f"the Bose-Einstein population is used only where {conds}: for temperatures between 0 and that threshold the mean-square displacements are those of T = 0, unlike the sampler's distribution", line=gp.lineno)

    _r19d(rep)
    _r19e(rep)
    _r19h(rep)
    _r19q(rep)
    _r19k(rep)
    _r19l(rep)
    _r19m(rep)
    _r19o(rep)
    from rules import shared_bcast

    shared_bcast.run(rep, "R19i", ["phonopy/phonon/thermal_displacement.py", "phonopy/phonon/random_displacements.py"])
    from rules import shared_freshwrite

    shared_freshwrite.run(rep, "R19n", ["phonopy/phonon/thermal_displacement.py", "phonopy/phonon/random_displacements.py", "phonopy/harmonic/dynmat_to_fc.py"], 2)
    from rules import shared_readonly

    shared_readonly.run(rep, "R19p", ["phonopy/phonon/thermal_displacement.py", "phonopy/phonon/random_displacements.py", "phonopy/harmonic/dynmat_to_fc.py"], 3)
    _r19f(rep)
    _r19g(rep)
    # R19c
    sii = core.find_def(RD, "RandomDisplacements._solve_ii")
    sij = core.find_def(RD, "RandomDisplacements._solve_ij")
    def first_ret(fn):
        rets = [r.value for r in ast.walk(fn) if isinstance(r, ast.Return) and r.value is not None]
        if len(rets) != 1:
            raise AnalysisError(f"R19c: {fn.name}: expected one return")
        r0 = core.resolve_name(fn, rets[0])
        v = core.resolve_name(fn, r0.elts[0] if isinstance(r0, ast.Tuple) else r0)
        return v, symalg.open_expr(core.src(v))

    v_ii, e_ii = first_ret(sii)
    v_ij, e_ij = first_ret(sij)
    def acc_of(fn, v):
        aug_ = {core.src(a.target) for a in ast.walk(fn) if isinstance(a, ast.AugAssign)}
        nm = sorted({x.id for x in ast.walk(v) if isinstance(x, ast.Name) and x.id in aug_})
        if len(nm) != 1:
            raise AnalysisError(f"R19c: {fn.name} does not return its accumulator")
        return nm[0]

    a_ii, a_ij = acc_of(sii, v_ii), acc_of(sij, v_ij)
    rep.instance("R19c", RD, "RandomDisplacements._solve_ii", f"returns {core.src(v_ii)}", symalg.same(e_ii, symalg.open_expr(a_ii))[0], "the q = -q+G contribution carries an extra factor", line=sii.lineno)
    rep.instance("R19c", RD, "RandomDisplacements._solve_ij", f"returns {core.src(v_ij)}", symalg.same(e_ij, symalg.open_expr(f"{a_ij} * np.sqrt(2)"))[0], "the conjugate-pair contribution is not multiplied by sqrt(2)", line=sij.lineno)
    trj = symalg.OpenPyTranslator(where="RandomDisplacements._solve_ij")
    trj.summary(sij)
    # roles instead of names: the accumulator is the local that is augmented in the zip loop and returned, the phase
    # is the last target of that loop
    zl = [lp for lp in ast.walk(sij) if isinstance(lp, ast.For) and isinstance(lp.iter, ast.Call) and core.src(lp.iter.func) == "zip" and isinstance(lp.target, ast.Tuple)]
    if len(zl) != 1:
        raise AnalysisError("R19c: the loop over (variates, sigmas, eigenvectors, phases) vanished from _solve_ij")
    phase_name = core.src(zl[0].target.elts[-1])
    augd = {core.src(a.target) for a in ast.walk(zl[0]) if isinstance(a, ast.AugAssign)}
    acc_names = [x.id for x in ast.walk(v_ij) if isinstance(x, ast.Name) and x.id in augd]
    if len(set(acc_names)) != 1:
        raise AnalysisError("R19c: the accumulator returned by _solve_ij is not the one augmented in the loop")
    acc = trj.appends.get("aug:" + acc_names[0], [])
    parts = []
    for op, val in acc:
        part = getattr(val.func, "__name__", str(val.func)) if val.args else None
        inner = val.args[0] if val.args else None
        comp = None
        base = None
        has_phase = False
        if inner is not None:
            for f in sp.Mul.make_args(inner):
                if f == sp.Symbol(phase_name):
                    has_phase = True
                elif f.args and str(f.func).endswith("[]") and len(f.args) == 1 and f.args[0].is_Integer:
                    comp, base = int(f.args[0]), str(f.func)
        parts.append((op, part, comp, base, has_phase))
    shape_ok = sorted((o, p, c) for o, p, c, _, _ in parts) == [("Add", ".real", 0), ("Sub", ".imag", 1)] and len({b for *_, b, _ in parts}) == 1 and all(h for *_, h in parts)
    rep.instance("R19c", RD, "RandomDisplacements._solve_ij", f"u accumulates {[(o, p, c) for o, p, c, _, _ in parts]} of (variate * phase)", shape_ok,
                 "the two normal variates of a conjugate pair are not combined as Re(x0 phase) - Im(x1 phase) with the complex phase", line=sij.lineno)
    prep = core.find_def(RD, "RandomDisplacements._prepare")
    core.require_names(prep, ["q"], f"{RD}::RandomDisplacements._prepare")
    trp = symalg.OpenPyTranslator(where="RandomDisplacements._prepare")
    trp.summary(prep)
    want = {
        "self._phase_ii": "np.cos(2 * np.pi * np.dot(self._lpos, q)).reshape(-1, 1)",
        "self._phase_ij": "np.exp(2j * np.pi * np.dot(self._spos, q)).reshape(-1, 1)",
        "self._eigvecs_ii": "np.linalg.eigh(self._C_to_D(self._dynmat.dynamical_matrix, q))[1]",
        "self._eigvecs_ij": "np.linalg.eigh(self._dynmat.dynamical_matrix)[1]",
    }
    loops = {core.src(lp.iter).split("[")[1].split("]")[0] for lp in ast.walk(prep) if isinstance(lp, ast.For) and "self._comm_points[" in core.src(lp.iter)}
    okp = loops == {"self._ii", "self._ij"}
    bad = []
    for k, wtxt in want.items():
        got = trp.appends.get(k, [])
        w = symalg.open_expr(wtxt)
        if len(got) != 1:
            bad.append(f"{k}: {len(got)} appends")
            continue
        g = got[0]
        if k.startswith("self._eigvecs"):
            # item1(f(x)) is the translator's form of `_, v = f(x)`; compare the call inside
            inner_g = g.args[0] if g.args and str(g.func) == "item1" else g
            inner_w = symalg.open_expr(wtxt[: -len("[1]")])
            ok1 = symalg.same(inner_g, inner_w)[0]
        else:
            ok1 = symalg.same(g, w)[0]
        if not ok1:
            bad.append(f"{k} = {core.norm(str(g), 80)}")
    rep.instance("R19c", RD, "RandomDisplacements._prepare", "ii points: D-type matrix and cos phase of lattice-point positions; ij points: C-type matrix and exp phase of atomic positions", okp and not bad,
                 f"the two classes of commensurate points are not treated with real / complex phases respectively ({'; '.join(bad) or 'loops over ' + str(sorted(loops))})", line=prep.lineno)
    part = [s for s in ast.walk(core.find_def(RD, "RandomDisplacements._setup_sampling_qpoints")) if isinstance(s, ast.Assign) and "categorize_commensurate_points" in core.src(s.value)]
    rep.instance("R19c", RD, "RandomDisplacements._setup_sampling_qpoints", core.src(part[0]) if part else "<vanished>", len(part) == 1 and core.src(part[0].targets[0]) == "(self._ii, self._ij)", "the ii/ij partition is not computed once by categorize_commensurate_points", line=part[0].lineno if part else 0)


def _r19o(rep):
    """Mean-square displacement projected on a direction: |n . e|^2 per atom, evaluated on complex symbols."""
    from engine import symnp

    rep.rule("R19o", "thermal displacements along a direction n: the weight of a mode on atom a is |sum_i n_i e_(a,i)|^2 / m_a (the n^T U n of the displacement matrix, cross terms n_i n_j U_ij included), and without a direction |e_(a,i)|^2 / m_a per Cartesian component -- the statements that build the per-mode weights are evaluated on a complex 6 x 2 eigenvector matrix of symbols (two atoms, two bands)", 2)
    fn = core.find_def(TD, "ThermalDisplacements.run")
    loops = [st for st in fn.body if isinstance(st, ast.For)]
    if len(loops) != 1 or not (isinstance(loops[0].target, ast.Tuple) and isinstance(loops[0].iter, ast.Call) and core.src(loops[0].iter.func) == "enumerate"):
        raise AnalysisError("R19o: ThermalDisplacements.run lost its loop 'for count, (fs, vecs) in enumerate(self._iter_mesh)'")
    lp = loops[0]
    inner = lp.target.elts[1]
    if not (isinstance(inner, ast.Tuple) and len(inner.elts) == 2 and all(isinstance(x, ast.Name) for x in inner.elts)):
        raise AnalysisError("R19o: the mesh iterator no longer yields (frequencies, eigenvectors)")
    fs_name, vec_name = inner.elts[0].id, inner.elts[1].id
    # the per-mode weight array: what is subscripted by the mode selection and contracted with Q2
    cands = set()
    for x in ast.walk(lp):
        if isinstance(x, ast.Call) and core.src(x.func) in ("np.dot", "zip") and len(x.args) == 2 and isinstance(x.args[1], ast.Subscript) and isinstance(x.args[1].value, ast.Name):
            cands.add(x.args[1].value.id)
    cands -= {fs_name}
    if len(cands) != 1:
        raise AnalysisError(f"R19o: cannot identify the per-mode weights in ThermalDisplacements.run ({sorted(cands)})")
    wname = next(iter(cands))
    target = ast.Name(id=wname, ctx=ast.Load())
    m = [sp.Symbol("m0", positive=True), sp.Symbol("m1", positive=True)]
    m3 = [m[0]] * 3 + [m[1]] * 3
    E = [[sp.Symbol(f"e{r}{b}") for b in range(2)] for r in range(6)]
    nvec = [sp.Symbol(f"n{i}", real=True) for i in range(3)]

    def absq(x):
        return x.replace(lambda t: t.is_Pow and t.exp == 2 and isinstance(t.base, sp.Abs), lambda t: t.base.args[0] * sp.conjugate(t.base.args[0]))

    for label, direction in (("projected on a direction", nvec), ("Cartesian components", None)):
        env = {"self._masses": m, "self._masses3": m3, "self._projection_direction": direction, fs_name: [sp.Symbol("f0"), sp.Symbol("f1")], vec_name: E,
               "self._temperatures": [sp.Symbol("T0")]}
        evl = symnp.Evaluator(env, where="ThermalDisplacements.run")
        pre = symnp.backward_slice([st for st in fn.body if st is not lp and not isinstance(st, ast.Expr)], ast.Tuple(elts=[ast.Name(id=n_.id, ctx=ast.Load()) for st in symnp.backward_slice(lp.body, target, opaque=("np",)) for n_ in ast.walk(st) if isinstance(n_, ast.Name) and isinstance(n_.ctx, ast.Load)], ctx=ast.Load()), opaque=("np", fs_name, vec_name))
        pre = [st for st in pre if st.lineno < lp.lineno and not any(isinstance(c, ast.Call) and core.src(c.func) in ("np.zeros", "np.zeros_like") for c in ast.walk(st))]
        symnp.run_block(evl, pre)
        symnp.run_block(evl, symnp.backward_slice(lp.body, target, opaque=("np",)))
        got = evl.env.get(wname)
        if direction is not None:
            want = [[sp.expand(sum(nvec[i] * E[3 * a + i][b] for i in range(3)) * sp.conjugate(sum(nvec[i] * E[3 * a + i][b] for i in range(3))) / m[a]) for a in range(2)] for b in range(2)]
        else:
            want = [[sp.expand(E[r][b] * sp.conjugate(E[r][b]) / m3[r]) for r in range(6)] for b in range(2)]
        ok = symnp.shape(got) == symnp.shape(want) and all(sp.expand(absq(sp.expand(got[b][a])) - want[b][a]) == 0 for b in range(len(want)) for a in range(len(want[0])))
        shown = str(absq(sp.expand(got[0][0])))[:200] if symnp.shape(got) == symnp.shape(want) else f"shape {symnp.shape(got)}"
        rep.instance("R19o", TD, "ThermalDisplacements.run", f"{label}: weight[band][atom or component] = " + ("|n . e_a|^2 / m_a" if direction is not None else "|e_r|^2 / m_r"), ok,
                     f"{label}: the weight of band 0 on the first atom / component is {shown}, not " + ("|n0 e00 + n1 e10 + n2 e20|^2 / m0: the cross terms n_i n_j conj(e_i) e_j are missing, so the projected mean-square displacement is not n^T U n for any direction off the Cartesian axes on a site with off-diagonal U" if direction is not None else "|e00|^2 / m0"), line=lp.lineno)


def _r19m(rep):
    """D-type -> C-type eigenvectors at the q = -q + G points: the phase of atom kappa multiplies the ROWS of kappa."""
    from engine import frames
    from engine.frames import A as ATOM, L as LAT, U as UNK

    rep.rule("R19m", "eigenvectors handed to the inverse transform: at the q = -q + G points the real D-type eigenvectors are turned into C-type ones by the phase exp(-2 pi i r_kappa.q) of the atom a component belongs to, i.e. the phase vector (one entry per component) meets the component axis (rows) of the eigenvector matrix, not the band axis (axis typing; a phase per column cancels in E diag(w) E^H and leaves the D-type matrix)", 1)
    rel = "phonopy/phonon/random_displacements.py"
    fn = core.find_def(rel, "RandomDisplacements._collect_eigensolutions")
    ty = frames.Typer(fn, seeds={"self._comm_points[self._ii]": (UNK, LAT("x", "-")), "self._ppos": (ATOM, LAT("x", "+")), "self._eigvecs_ii": (UNK, ATOM, LAT("bnd", "-"))}, params={}, call_sigs={}, where=f"{rel}::RandomDisplacements._collect_eigensolutions")
    problems = ty.run()
    if not problems and ty.n_typed < 2:
        raise AnalysisError(f"R19m: only {ty.n_typed} product(s) typed in _collect_eigensolutions (phase = exp(-2 pi i r.q) and phase x eigenvectors expected)")
    rep.instance("R19m", rel, "RandomDisplacements._collect_eigensolutions", f"{ty.n_typed} products typed: r.q per atom, phase x eigenvector rows", not problems,
                 (problems[0].message if problems else "") + ": the atomic phases multiply the band axis (columns) of the eigenvector matrices; the matrices rebuilt from these eigen-solutions are the D-type ones and the inverse transform, which expects C-type phases, does not return the original force constants for cells with more than one atom", line=getattr(problems[0].node, "lineno", fn.lineno) if problems else fn.lineno)


def _r19l(rep):
    """Spectral reassembly D = V diag(w) V^H, decided entry by entry on symbolic arrays (two q-points, two bands)."""
    from engine import symnp

    rep.rule("R19l", "rebuilding the dynamical matrices from eigen-solutions: create_dynamical_matrices stores, for every q-point, D[i][j] = sum_k V[i][k] w[k] conj(V[j][k]) with V the matrix whose COLUMNS are the eigenvectors (symbolic evaluation of the numpy statements on complex symbols, loop or batched form alike): the conjugate on the other factor gives the complex conjugate D*, i.e. D(-q)", 1)
    rel = "phonopy/harmonic/dynmat_to_fc.py"
    fn = core.find_def(rel, "DynmatToForceConstants.create_dynamical_matrices")
    params = [a.arg for a in fn.args.args if a.arg != "self"]
    if len(params) != 2:
        raise AnalysisError("R19l: create_dynamical_matrices no longer takes (eigenvalues, eigenvectors)")
    nq, nb = 2, 2
    w = [[sp.Symbol(f"w{q}{k}", real=True) for k in range(nb)] for q in range(nq)]
    V = [[[sp.Symbol(f"v{q}{i}{k}") for k in range(nb)] for i in range(nb)] for q in range(nq)]
    evl = symnp.Evaluator({params[0]: w, params[1]: V}, where="create_dynamical_matrices")
    symnp.run_block(evl, fn.body)
    got = evl.env.get("self.dynamical_matrices", evl.env.get("self._dynmat"))
    if got is None:
        raise AnalysisError("R19l: create_dynamical_matrices stores no dynamical matrices")
    want = [[[sum(V[q][i][k] * w[q][k] * sp.conjugate(V[q][j][k]) for k in range(nb)) for j in range(nb)] for i in range(nb)] for q in range(nq)]
    ok = symnp.shape(got) == (nq, nb, nb) and all(sp.expand(got[q][i][j] - want[q][i][j]) == 0 for q in range(nq) for i in range(nb) for j in range(nb))
    sample = str(got[0][0][1]) if symnp.shape(got) == (nq, nb, nb) else f"shape {symnp.shape(got)}"
    what = "the complex conjugate (the matrix of -q)" if symnp.shape(got) == (nq, nb, nb) and all(sp.expand(got[q][i][j] - sp.conjugate(want[q][i][j])) == 0 for q in range(nq) for i in range(nb) for j in range(nb)) else "another matrix"
    rep.instance("R19l", rel, "DynmatToForceConstants.create_dynamical_matrices", "D[q][i][j] = sum_k V[q][i][k] w[q][k] conj(V[q][j][k]) for 2 q-points x 2 bands", ok,
                 f"the stored matrix has D[0][0][1] = {sample}, not sum_k V[0][0][k] w[0][k] conj(V[0][1][k]): it is {what}; force constants rebuilt from unmodified eigen-solutions are not the original ones whenever a commensurate point has a complex dynamical matrix", line=fn.lineno, sample={"D[0][0][1]": sample})


def _r19g(rep):
    """Assembly of the mean-square displacements and displacement matrices from Q2 and the eigenvectors."""
    from engine import sites

    rep.rule("R19g", "thermal displacements: |e|^2 / m (per Cartesian component or projected) summed with Q2 over the modes inside the frequency window and averaged over the number of q-points (count + 1 == number of grid points); displacement matrices: e e^dagger / m with Q2, real part, same average", 10)
    T = "ThermalDisplacements"
    M = "ThermalDisplacementMatrices"
    S = [
        (f"{T}.run", "assign", "self._displacements", "disps / (count + 1)", "the sum over q-points is not divided by the number of q-points"),
        (f"{T}.run", "aug", "disps", "np.outer(self._get_Q2(f, temps), v2)", "the mode contribution is not Q2(f, T) |e|^2 / m"),
        (f"{T}.run", "aug", "disps[0]", "np.dot(Q2, vecs2[valid_indices])", "the single-temperature contribution is not sum over modes of Q2 |e|^2 / m"),
        (f"{M}._get_disp_matrices", "aug", "disps", "Q2[:, None, None, None] * c[None, :, :, :]", "the mode contribution is not Q2(f, T) e e^dagger / m"),
        (f"{M}._get_disp_matrices", "assign", "self._disp_matrices", "disps.real / (count + 1)", "the displacement matrices are not the real part of the q-point average"),
    ]
    for qn, kind, target, text, msg in S:
        sites.check(rep, "R19g", TD, qn, kind, target, text, msg)
    # the valid-mode window and the per-atom outer product
    for qn in (f"{T}.run", f"{M}._get_disp_matrices"):
        fn = core.find_def(TD, qn)
        core.require_names(fn, ["valid_indices", "fs" if qn.endswith(".run") else "freqs", "count"], f"{TD}::{qn}")
        first = [st for st in ast.walk(fn) if isinstance(st, ast.Assign) and core.src(st.targets[0]) == "valid_indices"]
        more = [st for st in ast.walk(fn) if isinstance(st, ast.AugAssign) and core.src(st.target) == "valid_indices"]
        fv = "fs" if qn.endswith(".run") else "freqs"
        ok = len(first) == 1 and core.src(first[0].value).replace(" ", "") == f"{fv}>self._fmin" and len(more) == 1 and isinstance(more[0].op, ast.Mult) and core.src(more[0].value).replace(" ", "") == f"{fv}<self._fmax"
        rep.instance("R19g", TD, qn, f"modes with fmin < f (< fmax when given)", ok, "the frequency window selecting the modes changed", line=fn.lineno)
        asserts = [a for a in ast.walk(fn) if isinstance(a, ast.Assert) and "mesh_numbers" in core.src(a.test)]
        ok_a = len(asserts) == 1 and symalg.same(symalg.open_expr(core.src(asserts[0].test.left)), symalg.open_expr("np.prod(self._iter_mesh.mesh_numbers)"))[0] and symalg.same(symalg.open_expr(core.src(asserts[0].test.comparators[0])), symalg.open_expr("count + 1"))[0]
        rep.instance("R19g", TD, qn, "count + 1 == number of grid points (unreduced mesh)", ok_a, "nothing ties the divisor to the number of grid points", line=fn.lineno, nontrivial=False)
    # the per-atom matrix, in the function's own environment (a temporary for the outer product changes nothing)
    dm = core.find_def(TD, f"{M}._get_disp_matrices")
    core.require_names(dm, ["c", "v", "m", "i"], f"{TD}::{M}._get_disp_matrices")
    sites.check(rep, "R19g", TD, f"{M}._get_disp_matrices", "assign", "c[i]", "np.outer(v, v.conj()) / m", "the per-atom matrix is not e e^dagger / m stored for atom i")



def _r19q(rep):
    """The lattice of the CIF transformation has the lattice vectors as columns, wherever it comes from."""
    from engine import frames
    from engine.frames import C as CART, L as LAT

    rep.rule("R19q", "CIF transformation input: the matrix A of U_cif = (A N)^-1 U (A N)^-T holds the lattice vectors as COLUMNS (frame typing (Cartesian, L-)): the value the API passes (primitive.cell.T) and any default taken inside ThermalDisplacementMatrices; the row-vector matrix primitive.cell gives a symmetric, positive semi-definite and wrong U_cif for every lattice whose matrix is not symmetric", 1)
    want = (CART, LAT("p", "-"))
    n = 0
    # call sites in the API
    API_ = "phonopy/api_phonopy.py"
    for fn in [x for x in ast.walk(core.parse(API_)) if isinstance(x, ast.FunctionDef)]:
        for c in ast.walk(fn):
            if isinstance(c, ast.Call) and core.src(c.func).endswith("ThermalDisplacementMatrices"):
                kw = [k.value for k in c.keywords if k.arg == "lattice"]
                if not kw:
                    continue
                ty = frames.Typer(fn, seeds={"self._primitive.cell": (LAT("p", "-"), CART), "self.primitive.cell": (LAT("p", "-"), CART)}, params={}, call_sigs={}, where=f"{API_}::{fn.name}")
                ty.run()
                got = ty.expr(kw[0])
                n += 1
                ok = got is not None and len(got) == 2 and frames.same_axis(got[0], want[0]) is not False and frames.same_axis(got[1], want[1]) is not False
                rep.instance("R19q", API_, core.qualname_of(fn), f"lattice={core.src(kw[0])} : {frames.show(got)}", ok, f"the lattice handed to the CIF transformation is typed {frames.show(got)}, not {frames.show(want)}", line=c.lineno)
    # defaults taken inside the class
    init = core.find_def(TD, "ThermalDisplacementMatrices.__init__")
    for st in ast.walk(init):
        if isinstance(st, ast.Assign) and any(isinstance(x, ast.Attribute) and x.attr == "cell" for x in ast.walk(st.value)):
            ty = frames.Typer(init, seeds={}, params={}, call_sigs={}, where=f"{TD}::ThermalDisplacementMatrices.__init__")
            got = ty.expr(st.value)
            n += 1
            ok = got is not None and len(got) == 2 and frames.same_axis(got[0], want[0]) is not False and frames.same_axis(got[1], want[1]) is not False
            rep.instance("R19q", TD, "ThermalDisplacementMatrices.__init__", f"{core.norm(core.src(st), 70)} : {frames.show(got)}", ok,
                         f"the default lattice of the CIF transformation is typed {frames.show(got)} (lattice vectors in rows), not {frames.show(want)}: the CIF matrices written for hexagonal, monoclinic, triclinic cells are those of another lattice", line=st.lineno)
    if n < 1:
        raise AnalysisError("R19q: no lattice reaches the CIF transformation (neither from the API nor as a default)")


def _r19h(rep):
    """CIF convention: U_cart = (A N) U_cif (A N)^T with A the lattice vectors as columns and N = diag(|a*|, |b*|, |c*|),
    a*, b*, c* the rows of A^-1."""
    from engine import sites, symnp

    rep.rule("R19h", "CIF convention of the displacement matrices: N is the diagonal matrix of the lengths of the reciprocal vectors (rows of inv(A), A = lattice vectors as columns), the stored transformation is inv(A N), and U_cif = inv(A N) U_cart inv(A N)^T; evaluated entry by entry on symbolic 3x3 matrices", 3)
    M = "ThermalDisplacementMatrices"
    init = core.find_def(TD, f"{M}.__init__")
    lat = [a.arg for a in init.args.args + init.args.kwonlyargs if a.arg == "lattice"]
    arms = [st for st in ast.walk(init) if isinstance(st, ast.If) and lat and lat[0] in core.src(st.test) and "None" in core.src(st.test)]
    if not lat or len(arms) != 1:
        raise AnalysisError(f"{TD}::{M}.__init__: the lattice argument or its None test vanished")
    t = arms[0].test
    given = arms[0].body if isinstance(t, ast.Compare) and isinstance(t.ops[0], ast.IsNot) else arms[0].orelse
    # statements that follow the test in __init__ belong to both arms (A chosen in the arms, the transformation after)
    if arms[0] in init.body:
        given = list(given) + init.body[init.body.index(arms[0]) + 1:]
    A, B = symnp.matrix("a", 3, 3), symnp.matrix("b", 3, 3)

    class Inv:
        def __init__(self, m):
            self.m = m

    def hook(call, ev):
        if core.src(call.func) == "np.linalg.inv" and call.args:
            x = ev.ev(call.args[0])
            if x is A or (symnp.shape(x) == (3, 3) and symnp.equal(x, A)):
                return B
            return Inv(x)
        return None

    evl = symnp.Evaluator({lat[0]: A}, where=f"{TD}::{M}.__init__", call_hook=hook)
    got = None
    for st in given:
        if isinstance(st, ast.Assign) and len(st.targets) == 1:
            v = evl.ev(st.value)
            if isinstance(st.targets[0], ast.Name):
                evl.env[st.targets[0].id] = v
            elif core.src(st.targets[0]) == "self._ANinv":
                got = v
    if got is None:
        raise AnalysisError(f"{TD}::{M}.__init__: self._ANinv is no longer set where a lattice is given")
    want = [[A[i][j] * sp.sqrt(sum(B[j][k] ** 2 for k in range(3))) for j in range(3)] for i in range(3)]
    ok = isinstance(got, Inv) and symnp.shape(got.m) == (3, 3) and symnp.equal(got.m, want)
    shown = str(got.m[0][1]) if isinstance(got, Inv) and symnp.shape(got.m) == (3, 3) else type(got).__name__
    rep.instance("R19h", TD, f"{M}.__init__", "self._ANinv = inv(A . diag(|row i of inv(A)|))", ok,
                 f"the matrix that is inverted has entry (0, 1) = {shown} instead of a01 * |row 1 of inv(A)|: the diagonal matrix N does not hold the lengths of the reciprocal vectors a*, b*, c* (rows of the inverse of the column-vector lattice), so U_cif no longer satisfies U_cart = sum_ij U_cif_ij |a*_i||a*_j| a_i a_j^T unless inv(A) has rows and columns of equal length (cubic, orthorhombic P, fcc/bcc primitive)", line=arms[0].lineno)
    run = core.find_def(TD, f"{M}.run")
    st = [a for a in ast.walk(run) if isinstance(a, ast.Assign) and core.src(a.targets[0]).startswith("self._disp_matrices_cif[")]
    if len(st) != 1:
        raise AnalysisError(f"{TD}::{M}.run: the store into self._disp_matrices_cif[...] vanished")
    sites.check(rep, "R19h", TD, f"{M}.run", "assign", core.src(st[0].targets[0]), "np.dot(np.dot(self._ANinv, mat), self._ANinv.T)", "U_cif is not inv(A N) U_cart inv(A N)^T")
    loops = [lp for lp in ast.walk(run) if isinstance(lp, ast.For) and "self._disp_matrices" in core.src(lp.iter)]
    ok_ix = len(st) == 1 and len(loops) >= 1 and isinstance(loops[0].target, ast.Tuple) and core.src(st[0].targets[0].slice).replace(" ", "").strip("()").split(",")[0] == core.src(loops[0].target.elts[0])
    rep.instance("R19h", TD, f"{M}.run", "the CIF matrix of temperature i, atom j is stored at [i, j]", ok_ix, "the transformed matrices are not stored at the position of the Cartesian matrix they come from", line=run.lineno)





_MEMO_CONTROL = """
class K:
    def frequencies(self, v):
        self._eig = v
    def _set(self, T):
        if self._T is not None and T == self._T:
            return
        self._sig = self._get(self._eig, T)
        self._T = T
"""


def _memo_findings(cls: ast.ClassDef):
    """(method, key attribute, derived attributes, source attributes, [writers of a source that do not reset the key])
    for every memoising method of a class: `if <test on self._K>: return` first, then self._D = f(self._S ...) and
    self._K = ... ; every other method that writes an S must reset K (or recompute the D)."""
    out = []
    methods = [m for m in cls.body if isinstance(m, ast.FunctionDef)]
    for m in methods:
        body = [st for st in m.body if not (isinstance(st, ast.Expr) and isinstance(st.value, ast.Constant))]
        if not body or not isinstance(body[0], ast.If) or not (len(body[0].body) == 1 and isinstance(body[0].body[0], ast.Return) and body[0].body[0].value is None) or body[0].orelse:
            continue
        keys = {core.src(a) for a in ast.walk(body[0].test) if isinstance(a, ast.Attribute) and core.src(a.value) == "self"}
        assigned = {}
        for st in body[1:]:
            for a in ast.walk(st):
                if isinstance(a, ast.Assign):
                    for t in a.targets:
                        for x in ([t] if not isinstance(t, ast.Tuple) else t.elts):
                            if isinstance(x, ast.Attribute) and core.src(x.value) == "self":
                                assigned[core.src(x)] = a.value
        key = sorted(k for k in keys if k in assigned)
        if not key:
            continue
        derived = {d: v for d, v in assigned.items() if d not in key}
        sources = set()
        for v in derived.values():
            sources |= {core.src(a) for a in ast.walk(v) if isinstance(a, ast.Attribute) and core.src(a.value) == "self" and not isinstance(getattr(a, "_parent", None), ast.Call) or (isinstance(a, ast.Attribute) and core.src(a.value) == "self" and not (isinstance(getattr(a, "_parent", None), ast.Call) and getattr(a, "_parent").func is a))}
        sources -= set(derived) | set(key)
        stale = []
        for w in methods:
            if w is m or w.name == "__init__":
                continue
            writes = set()
            for a in ast.walk(w):
                if isinstance(a, (ast.Assign, ast.AugAssign)):
                    tg = a.targets if isinstance(a, ast.Assign) else [a.target]
                    for t in tg:
                        for x in ([t] if not isinstance(t, ast.Tuple) else t.elts):
                            base = x
                            while isinstance(base, ast.Subscript):
                                base = base.value
                            if isinstance(base, ast.Attribute) and core.src(base.value) == "self":
                                writes.add(core.src(base))
            if writes & sources and not (writes & set(key)) and not (writes >= set(derived)):
                stale.append((w, sorted(writes & sources)))
        out.append((m, key, sorted(derived), sorted(sources), stale))
    return out


def _r19k(rep):
    """Memoised amplitudes follow the eigen-solutions: whoever changes the eigenvalues invalidates what was derived."""
    rep.rule("R19k", "memoised derived state: when a method skips its work because a key attribute is unchanged (`if ... self._T ...: return`) and otherwise stores values computed from other attributes, every other method that writes one of those attributes resets the key (or recomputes the values); otherwise a run at the same temperature after the frequencies were replaced (frequencies setter, treat_imaginary_modes) samples with the amplitudes of the old spectrum", 0)
    ctrl = _memo_findings(ast.parse(_MEMO_CONTROL).body[0])
    if not (len(ctrl) == 1 and ctrl[0][4] and ctrl[0][4][0][0].name == "frequencies"):
        raise AnalysisError("R19k: the rule no longer recognises its own positive example")
    for rel in (RD, TD):
        for cls in [c for c in ast.walk(core.parse(rel)) if isinstance(c, ast.ClassDef)]:
            for m, key, derived, sources, stale in _memo_findings(cls):
                rep.instance("R19k", rel, f"{cls.name}.{m.name}", f"memo on {key}: {derived} from {sources}", not stale,
                             (f"{cls.name}.{stale[0][0].name} writes {stale[0][1]} but leaves {key} as it was: the next {m.name} with an unchanged key returns early and {derived} keep the values computed from the previous {stale[0][1]} -- the sampled displacements then do not have the covariance of the eigen-solutions the object holds" if stale else ""), line=m.lineno)
    rep.note("R19k: no memoising method on the confirmed tree; the rule is kept alive by a built-in positive example")


def _r19f(rep):
    """Assembly of the sampler: the documented expressions at every step between the normal variates and the
    displacements (open terms in each function's own environment)."""
    from engine import sites

    rep.rule("R19f", "sampler assembly: mode amplitudes -> atoms -> mass and cell-count normalisation -> optional truncation, and the C-type/D-type transforms, frequency <-> eigenvalue maps and q = n / N, each equal to the documented expression", 14)
    R = "RandomDisplacements"
    S = [
        (f"{R}.__init__", "assign", "self._lpos", "self._spos - self._ppos[self._s2pp]", "the lattice-point positions are not supercell positions minus the positions of the primitive atoms they belong to"),
        (f"{R}.__init__", "assign", "self._s2pp", "[p2p[i] for i in s2p]", "the supercell -> primitive index map is not p2p[s2p[.]]"),
        (f"{R}.run", "assign", "u", "(u_ii + u_ij) / np.sqrt(mass * N)", "the displacements are not (ii part + ij part) / sqrt(mass N)"),
        (f"{R}.run", "assign", "mass", "self._dynmat.supercell.masses.reshape(-1, 1)", "the masses dividing the displacements are not the supercell masses"),
        (f"{R}.run", "assign", "N", "len(self._comm_points)", "N is not the number of commensurate points"),
        (f"{R}.run", "assign", "self._u", "np.where(dists < self._max_distance, u, u / dists * self._max_distance)", "displacements longer than max_distance are not rescaled to max_distance"),
        (f"{R}._solve_ii", "assign", "u_red", "np.dot(norm_dist * sigma, eigvecs.T).reshape(number_of_snapshots, -1, 3)[:, self._s2pp, :]", "the ii amplitudes are not (variates x sigma) . eigvecs^T distributed to the supercell atoms"),
        (f"{R}._solve_ii", "aug", "u", "u_red * phase", "the ii contribution is not amplitude x cos phase"),
        (f"{R}._solve_ij", "assign", "u_red", "np.dot(norm_dist * sigma, eigvecs.T).reshape(2, number_of_snapshots, -1, 3)[:, :, self._s2pp, :]", "the ij amplitudes are not (variates x sigma) . eigvecs^T distributed to the supercell atoms"),
        (f"{R}._get_sigma", "ret", 1, "np.sqrt(np.abs(eigvals)) * self._factor > self._cutoff_frequency", "modes are not selected by frequency > cutoff"),
        (f"{R}._C_to_D", "assign", "V", "np.repeat(np.exp(2j * np.pi * np.dot(self._ppos, q)), 3)", "the C-type -> D-type phase is not exp(2 pi i q.r) per Cartesian component"),
        (f"{R}._C_to_D", "rawassign", "dm", "((V * (V.conj() * dm).T).T).real", "the D-type matrix is not Re(V^* D V) element-wise"),
        (f"{R}._prepare", "iter", "self._comm_points[self._ii]", "self._comm_points[self._ii] / float(N)", "the ii q-points are not integer points / N"),
        (f"{R}._prepare", "iter", "self._comm_points[self._ij]", "self._comm_points[self._ij] / float(N)", "the ij q-points are not integer points / N"),
        (f"{R}.frequencies", "ret", None, "np.array(np.sqrt(np.abs(eigvals)) * np.sign(eigvals) * self._factor, dtype='double', order='C')", "frequencies are not sign(e) sqrt|e| factor"),
    ]
    for qn, kind, target, text, msg in S:
        sites.check(rep, "R19f", RD, qn, "assign" if kind == "rawassign" else kind, target, text, msg + ": the sampled displacements do not have the harmonic canonical covariance", arg0=(target in ("u", "self._u")), raw=(kind == "rawassign"))
    sites.check(rep, "R19f", RD, f"{R}.frequencies", "assign", "eigvals", "(freqs / self._factor) ** 2 * np.sign(freqs)", "the frequency setter is not the inverse of the getter", setter=True)


def _r19e(rep):
    cls = core.find_def(RD, "RandomDisplacements")
    methods = {m.name: m for m in cls.body if isinstance(m, ast.FunctionDef)}
    if "run" not in methods:
        raise AnalysisError("anchor vanished: RandomDisplacements.run")
    sites = []

    def seeded_ctor(c):
        f = core.src(c.func)
        if f in ("np.random.default_rng", "np.random.RandomState", "np.random.Generator", "np.random.seed", "default_rng") or f.endswith(".default_rng"):
            return bool(c.args or c.keywords)
        return False

    def count_expr(e, stack):
        n = 0
        for c in [x for x in ast.walk(e) if isinstance(x, ast.Call)]:
            if seeded_ctor(c):
                n += 1
                sites.append(c)
            elif isinstance(c.func, ast.Attribute) and isinstance(c.func.value, ast.Name) and c.func.value.id == "self" and c.func.attr in methods and c.func.attr not in stack:
                n += count_block(methods[c.func.attr].body, stack + [c.func.attr])
        return n

    def count_block(stmts, stack):
        total = 0
        for st in stmts:
            if isinstance(st, ast.If):
                total += count_expr(st.test, stack) + max(count_block(st.body, stack), count_block(st.orelse, stack))
            elif isinstance(st, (ast.For, ast.While)):
                inner = count_block(st.body, stack)
                total += (count_expr(st.iter, stack) if isinstance(st, ast.For) else 0) + (inner * 2 if inner else 0)  # a loop may run more than once
            elif isinstance(st, (ast.With, ast.Try)):
                total += count_block(st.body, stack)
            elif isinstance(st, (ast.FunctionDef, ast.ClassDef)):
                continue
            else:
                total += count_expr(st, stack)
        return total

    n = count_block(methods["run"].body, ["run"])
    where = sorted({f"{core.qualname_of(c)}:{core.norm(core.src(c), 50)}" for c in sites})
    rep.instance("R19e", RD, "RandomDisplacements.run", f"seeded generators constructed on the longest path through run: {n} ({where})", n <= 1,
                 f"{n} generators are constructed from the same seed during one run: their streams are identical, so the variates of different modes (q = -q+G modes and conjugate pairs) are copies of each other and the sample covariance is not the harmonic one", line=methods["run"].lineno)


def _r19d(rep):
    from engine import frames
    from engine.frames import A, C, L, U

    cls = core.find_def(RD, "RandomDisplacements")
    methods = {m.name: m for m in cls.body if isinstance(m, ast.FunctionDef)}
    seeds = {
        "self._dynmat.supercell.scaled_positions": (A, L("s", "+")),
        "self._dynmat.primitive.scaled_positions": (A, L("p", "+")),
        "self._comm_points": (U, L("p", "-")),
        "self._lpos": (A, L("p", "+")),
        "self._spos": (A, L("p", "+")),
        "self._ppos": (A, L("p", "+")),
        "self._ii": (U,),
        "self._ij": (U,),
    }
    typed = 0
    nprob = 0
    for name in ("__init__", "_prepare", "_C_to_D"):
        fn = methods.get(name)
        if fn is None:
            raise AnalysisError(f"anchor vanished: RandomDisplacements.{name}")
        params = {"q": (L("p", "-"),)} if name == "_C_to_D" else {}
        sd = dict(seeds)
        if name == "__init__":
            for k in ("self._lpos", "self._spos", "self._ppos", "self._comm_points"):
                sd.pop(k)
        ty = frames.Typer(fn, seeds=sd, params=params, methods=methods, where=f"{RD}::{name}")
        problems = ty.run()
        typed += ty.n_typed
        nprob += len(problems)
        if name == "__init__":
            got = ty.env.get("self._spos")
            ok = got is not None and frames.same_axis(got[-1], L("p", "+")) is not False
            rep.instance("R19d", RD, "RandomDisplacements.__init__", f"self._spos : {frames.show(got)}", ok and not problems,
                         (problems[0].message if problems else f"supercell positions are stored as {frames.show(got)}, not as primitive-cell components") + ": the phase factors exp(2 pi i q.r) are evaluated at wrong positions for non-symmetric supercell matrices", line=fn.lineno)
        else:
            rep.instance("R19d", RD, f"RandomDisplacements.{name}", f"{ty.n_typed} contractions typed consistently", not problems, problems[0].message if problems else "", line=fn.lineno, nontrivial=ty.n_typed > 0)
    if typed < 6 and not nprob:
        raise AnalysisError(f"R19d: only {typed} contractions typed in RandomDisplacements")


def selftest():
    V = []
    b = lambda name, file, old, new, rule, expect="", **kw: V.append(dict(name=name, kind="break", file=file, old=old, new=new, rule=rule, expect=expect, **kw))
    n = lambda name, file, old, new, **kw: V.append(dict(name=name, kind="neutral", file=file, old=old, new=new, **kw))
    TD_ = "phonopy/phonon/thermal_displacement.py"
    b("occupation buffer typed like the temperatures the caller passed", TD_, '            vals = np.zeros(len(t), dtype="double")', "            vals = np.zeros_like(t)", "R19y.likedtype", "_get_population")
    n("occupation buffer typed like the temperatures but forced to double", TD_, '            vals = np.zeros(len(t), dtype="double")', '            vals = np.zeros_like(t, dtype="double")')
    b("atomic phases broadcast over the band axis", RD, "        eigvecs = []\n        # Transform eigenvectors of D-type to those of C-type\n        for q, eigvec in zip(qpoints, self._eigvecs_ii):\n            Vd = np.repeat(np.exp(-2j * np.pi * np.dot(self._ppos, q)), 3)\n            eigvecs.append((Vd * eigvec.T).T)\n", "        Vd = np.repeat(np.exp(-2j * np.pi * np.dot(qpoints, self._ppos.T)), 3, axis=1)\n        eigvecs = Vd[:, None, :] * np.array(self._eigvecs_ii)\n", "R19m", "_collect_eigensolutions")
    n("atomic phases broadcast over the component axis", RD, "        eigvecs = []\n        # Transform eigenvectors of D-type to those of C-type\n        for q, eigvec in zip(qpoints, self._eigvecs_ii):\n            Vd = np.repeat(np.exp(-2j * np.pi * np.dot(self._ppos, q)), 3)\n            eigvecs.append((Vd * eigvec.T).T)\n", "        Vd = np.repeat(np.exp(-2j * np.pi * np.dot(qpoints, self._ppos.T)), 3, axis=1)\n        eigvecs = Vd[:, :, None] * np.array(self._eigvecs_ii)\n")
    b("API hands the row-vector lattice to the CIF transformation", "phonopy/api_phonopy.py", "            lattice=self._primitive.cell.T,", "            lattice=self._primitive.cell,", "R19q", "lattice=")
    D2F = "phonopy/harmonic/dynmat_to_fc.py"
    b("batched reassembly with the conjugate on the left factor", D2F, "        dm = []\n        for eigvals, eigvecs in zip(eigenvalues, eigenvectors):\n            dm.append(np.dot(np.dot(eigvecs, np.diag(eigvals)), eigvecs.T.conj()))\n        self.dynamical_matrices = dm\n", "        eigvals = np.asarray(eigenvalues)\n        eigvecs = np.asarray(eigenvectors)\n        self.dynamical_matrices = np.matmul(\n            eigvecs.conj() * eigvals[:, None, :], eigvecs.transpose(0, 2, 1)\n        )\n", "R19l", "create_dynamical_matrices")
    n("batched reassembly, conjugate on the right factor", D2F, "        dm = []\n        for eigvals, eigvecs in zip(eigenvalues, eigenvectors):\n            dm.append(np.dot(np.dot(eigvecs, np.diag(eigvals)), eigvecs.T.conj()))\n        self.dynamical_matrices = dm\n", "        eigvals = np.asarray(eigenvalues)\n        eigvecs = np.asarray(eigenvectors)\n        self.dynamical_matrices = np.matmul(\n            eigvecs * eigvals[:, None, :], eigvecs.conj().transpose(0, 2, 1)\n        )\n")
    n("reassembly by einsum", D2F, "        dm = []\n        for eigvals, eigvecs in zip(eigenvalues, eigenvectors):\n            dm.append(np.dot(np.dot(eigvecs, np.diag(eigvals)), eigvecs.T.conj()))\n        self.dynamical_matrices = dm\n", "        self.dynamical_matrices = np.einsum(\n            \"qik,qk,qjk->qij\", eigenvectors, eigenvalues, np.conj(eigenvectors)\n        )\n")
    b("reassembly from rows instead of columns", D2F, "np.dot(np.dot(eigvecs, np.diag(eigvals)), eigvecs.T.conj())", "np.dot(np.dot(eigvecs.T, np.diag(eigvals)), eigvecs.conj())", "R19l", "create_dynamical_matrices")
    b("Q2 without the zero-point half", TD, "((self._get_population(freq, t) + 0.5) / (freq * 1e12 * 2 * np.pi))", "((self._get_population(freq, t)) / (freq * 1e12 * 2 * np.pi))", "R19a", "_get_Q2")
    b("sampler unit conversion misses 2 pi", RD, "self._unit_conversion = Hbar * EV / AMU / THz / (2 * np.pi) / Angstrom**2", "self._unit_conversion = Hbar * EV / AMU / THz / Angstrom**2", "R19a", "sigma_quantum")
    b("classical sigma divides by f squared", RD, "sigma = np.sqrt(T * self._unit_conversion_classical) / freqs", "sigma = np.sqrt(T * self._unit_conversion_classical) / freqs**2", "R19a", "sigma_classical")
    b("population with a different energy unit", TD, "                return 1.0 / (np.exp(freq * THzToEv / (Kb * t)) - 1)", "                return 1.0 / (np.exp(freq / (Kb * t)) - 1)", "R19b", "_get_population")
    b("sqrt(2) dropped", RD, "        return u * np.sqrt(2), conditions", "        return u, conditions", "R19c", "_solve_ij")
    b("imaginary part added", RD, "            u -= (u_red[1] * phase).imag", "            u += (u_red[1] * phase).imag", "R19c", "_solve_ij")
    b("supercell positions converted with the transposed matrix", RD, "        tmat = np.dot(supercell.cell, np.linalg.inv(primitive.cell))", "        tmat = np.dot(supercell.cell, np.linalg.inv(primitive.cell)).T", "R19d", "__init__")
    n("sqrt(2) written first", RD, "        return u * np.sqrt(2), conditions", "        return np.sqrt(2) * u, conditions")
    n("phase written first in the pair accumulation", RD, "            u += (u_red[0] * phase).real", "            u += (phase * u_red[0]).real")
    b("pair accumulation adds the imaginary part", RD, "            u -= (u_red[1] * phase).imag", "            u += (u_red[1] * phase).imag", "R19c", "_solve_ij")
    b("ij phase evaluated at lattice points", RD, "np.exp(2j * np.pi * np.dot(self._spos, q)).reshape(-1, 1)", "np.exp(2j * np.pi * np.dot(self._lpos, q)).reshape(-1, 1)", "R19c", "_prepare")
    b("a second generator from the same seed", RD, "            randn_ii = rng.standard_normal(size=shape)\n", "            randn_ii = rng.standard_normal(size=shape)\n            rng = np.random.default_rng(seed=random_seed)\n", "R19e", "run")
    n("Q2 factors reordered", TD, "            Hbar\n            * EV\n            / Angstrom**2", "            EV\n            * Hbar\n            / Angstrom**2")
    b("lattice-point positions with a plus", RD, "        self._lpos = self._spos - self._ppos[self._s2pp]", "        self._lpos = self._spos + self._ppos[self._s2pp]", "R19f", "_lpos")
    b("mass normalisation without N", RD, "        u = np.array((u_ii + u_ij) / np.sqrt(mass * N), dtype=\"double\", order=\"C\")", "        u = np.array((u_ii + u_ij) / np.sqrt(mass), dtype=\"double\", order=\"C\")", "R19f", "u ==")
    b("D-type transform without the transpose", RD, "        dm = ((V * (V.conj() * dm).T).T).real  # C-type to D-type", "        dm = ((V * (V.conj() * dm)).T).real  # C-type to D-type", "R19f", "_C_to_D")
    b("q-points not divided by N", RD, "        for q in self._comm_points[self._ii] / float(N):", "        for q in self._comm_points[self._ii] * float(N):", "R19f", "_prepare")
    n("mass normalisation as two square roots", RD, "        u = np.array((u_ii + u_ij) / np.sqrt(mass * N), dtype=\"double\", order=\"C\")", "        u = np.array((u_ij + u_ii) / np.sqrt(N * mass), dtype=\"double\", order=\"C\")")
    b("displacements multiplied by the masses", TD, "                vecs2 = (abs(vecs) ** 2).T / masses", "                vecs2 = (abs(vecs) ** 2).T * masses", "R19o", "Cartesian components")
    b("projected displacement without the cross terms", TD, "                p_vecs = np.dot(\n                    vecs.T.reshape(-1, 3), self._projection_direction\n                ).reshape(-1, len(masses))\n                vecs2 = np.abs(p_vecs) ** 2 / masses", "                vecs2 = np.dot((np.abs(vecs) ** 2).T.reshape(-1, len(masses), 3), self._projection_direction**2) / masses", "R19o", "projected on a direction")
    b("q-point average off by one", TD, "        self._displacements = disps / (count + 1)", "        self._displacements = disps / count", "R19g", "_displacements")
    b("displacement matrix without conjugation", TD, "                    c[i] = np.outer(v, v.conj()) / m", "                    c[i] = np.outer(v, v) / m", "R19g", "c[i]")
    b("CIF normalisation with column norms of the inverse lattice", TD, "            N = np.diag([np.linalg.norm(x) for x in np.linalg.inv(A)])", "            N = np.diag(np.linalg.norm(np.linalg.inv(A), axis=0))", "R19h", "ANinv")
    n("CIF normalisation with row norms, vectorised", TD, "            N = np.diag([np.linalg.norm(x) for x in np.linalg.inv(A)])", "            N = np.diag(np.linalg.norm(np.linalg.inv(A), axis=1))")
    return V
