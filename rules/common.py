"""Generic effect / aliasing rules applied to every property's anchored Python files.

The shared rules below were each written after a seeded change in one property, but what they state is a necessary
condition wherever the same shape of code occurs: a view of stored data updated in place, an ``out=`` array that is
also an input read later, an element used as the operand of an update that runs over it, an observer that writes
into what it shows, an update of an array read back from an object that may have kept the caller's argument, an array without contents that reaches an accumulating kernel, a conditional copy of the caller's (or another object's) array changed in place, a value that slips into another optional parameter's position, a two-index array moved through an index map in two directions at once, a per-call result bound to a buffer the object keeps, a running offset that a 'continue' can skip, a callee left at its VASP default although the calculator is known, a float result buffer typed by the caller's array, (the fresh-write rule for result arrays is not
among them: stateful algorithm classes such as the Smith-normal-form reducer update their own matrices in place by
design; it stays with the classes it was tuned for).  After a property's own rules (and before delegation) they
run over the Python files the property is anchored in, under the ids ``R<XX>y.<rule>``; each keeps itself alive with
its built-in pair of examples.
"""

from __future__ import annotations

import os

from engine import core
from rules import delegation, shared_alias, shared_argname, shared_ctxparam, shared_likedtype, shared_offset, shared_outbuf, shared_permcov, shared_ctoralias, shared_lazycache, shared_zeroinit, shared_trunc, shared_outalias, shared_readonly, shared_selfalias, shared_viewupdate


def run(rep: core.Report, pid: str) -> None:
    if os.environ.get("VERIF_NO_COMMON") == "1":
        return
    files = sorted(f for f in delegation.anchors().get(pid, set()) if f.endswith(".py") and (core.REPO / f).is_file())
    if not files:
        return
    xx = pid[1:]
    shared_viewupdate.run(rep, f"R{xx}y.viewupdate", files)
    shared_outalias.run(rep, f"R{xx}y.outalias", files)
    shared_selfalias.run(rep, f"R{xx}y.selfalias", files)
    shared_readonly.run(rep, f"R{xx}y.readonly", files, 0)
    shared_trunc.run_int_calls(rep, f"R{xx}y.inttrunc", files)
    shared_lazycache.run(rep, f"R{xx}y.lazycache", files)
    shared_ctoralias.run(rep, f"R{xx}y.ctoralias", files, core.python_files("phonopy"))
    if pid not in ("C15",):  # C15 runs it as R15f over its own list of modules
        shared_alias.run(rep, f"R{xx}y.condcopy", files)
    shared_argname.run(rep, f"R{xx}y.argname", files)
    shared_permcov.run(rep, f"R{xx}y.permcov", files)
    shared_outbuf.run(rep, f"R{xx}y.outbuf", files)
    shared_offset.run(rep, f"R{xx}y.offset", files)
    shared_ctxparam.run(rep, f"R{xx}y.ctxparam", files)
    shared_likedtype.run(rep, f"R{xx}y.likedtype", files)
    zfiles = [f for f in files if "phonoc." in core.read(f) or "np.empty" in core.read(f) or "np.ndarray(" in core.read(f)]
    if zfiles and pid != "C13":  # C13 runs it as R13i over the whole package
        shared_zeroinit.run(rep, f"R{xx}y.zeroinit", zfiles)
