"""Two small order / scale rules (C04 R04o, C17 R17s).

R04o -- per-atom arrays that are reordered together are reordered by the same index array.  ``positions = positions[ids]``,
``symbols = [symbols[i] for i in ids]``, ``masses = masses[ids]`` ... and ``extracted_atoms = extracted_atoms[slots]``
with ``ids = np.argsort(slots)``: the last array receives the inverse permutation; for a swap nothing changes, for a
3-cycle the atom map points at atoms of other species.  Instances: statement lists (one block) with at least three
self-reorders ``A = A[I]`` / ``A = [A[i] for i in I]``; all index names I must agree.

R17s -- a cell that is rescaled through its lattice is not rescaled again through its Cartesian positions.
PhonopyAtoms stores fractional coordinates: after ``c.cell = c.cell * f`` the Cartesian positions ``c.positions`` already
carry the factor, so ``c.positions = c.positions * f`` applies it twice (the fractional coordinates are multiplied by f).
Instances: functions that assign ``N.cell`` from ``N.cell`` times a factor.
"""

from __future__ import annotations

import ast

from engine import core
from engine.core import AnalysisError


def _self_reorder(st):
    """(array text, index name) for A = A[I] / A = [A[i] for i in I]"""
    if not (isinstance(st, ast.Assign) and len(st.targets) == 1 and isinstance(st.targets[0], (ast.Name, ast.Attribute))):
        return None
    a = core.src(st.targets[0])
    v = st.value
    if isinstance(v, ast.Subscript) and core.src(v.value) == a and isinstance(v.slice, ast.Name):
        return a, v.slice.id
    if isinstance(v, ast.ListComp) and len(v.generators) == 1 and isinstance(v.generators[0].iter, ast.Name) and isinstance(v.generators[0].target, ast.Name) and not v.generators[0].ifs:
        e = v.elt
        if isinstance(e, ast.Subscript) and core.src(e.value) == a and isinstance(e.slice, ast.Name) and e.slice.id == v.generators[0].target.id:
            return a, v.generators[0].iter.id
    return None


def scan_reorder(tree):
    held, found = [], []

    def blocks(node):
        for fld in ("body", "orelse", "finalbody"):
            b = getattr(node, fld, None)
            if isinstance(b, list) and b and isinstance(b[0], ast.stmt):
                yield b
        for h in getattr(node, "handlers", []) or []:
            yield h.body

    for node in ast.walk(tree):
        for b in blocks(node):
            items = []
            for st in b:
                r = _self_reorder(st)
                if r:
                    items.append((st, r))
                elif isinstance(st, ast.If):  # guarded members of the same group: if masses is not None: masses = masses[ids]
                    for s2 in st.body:
                        r2 = _self_reorder(s2)
                        if r2:
                            items.append((s2, r2))
            if len(items) < 3:
                continue
            names = [r[1] for _, r in items]
            major = max(set(names), key=names.count)
            odd = [(st, r) for st, r in items if r[1] != major]
            if odd:
                found.append((items[0][0], odd[0][0], major, odd[0][1]))
            else:
                held.append((items[0][0], len(items), major))
    return held, found


def scan_rescale(tree):
    held, found = [], []
    for fn in [n for n in ast.walk(tree) if isinstance(n, ast.FunctionDef)]:
        for st in ast.walk(fn):
            if not (isinstance(st, ast.Assign) and len(st.targets) == 1 and isinstance(st.targets[0], ast.Attribute) and st.targets[0].attr == "cell" and isinstance(st.targets[0].value, ast.Name)):
                continue
            obj = st.targets[0].value.id
            v = st.value
            lat_locals = {a.targets[0].id for a in ast.walk(fn) if isinstance(a, ast.Assign) and len(a.targets) == 1 and isinstance(a.targets[0], ast.Name) and core.src(a.value) == f"{obj}.cell"}
            if not (isinstance(v, ast.BinOp) and isinstance(v.op, (ast.Mult, ast.Div)) and any(core.src(x) == f"{obj}.cell" or (isinstance(x, ast.Name) and x.id in lat_locals) for x in ast.walk(v))):
                continue
            held.append((fn, st))
            for later in ast.walk(fn):
                if isinstance(later, ast.Assign) and later.lineno > st.lineno and len(later.targets) == 1 and core.src(later.targets[0]) == f"{obj}.positions":
                    lv = later.value
                    if isinstance(lv, ast.BinOp) and isinstance(lv.op, (ast.Mult, ast.Div)) and any(core.src(x) == f"{obj}.positions" for x in ast.walk(lv)):
                        found.append((fn, st, later))
    return held, found


_CONTROL = '''
def bad(pos, sym, mass, atoms, slots):
    ids = np.argsort(slots)
    pos = pos[ids]
    sym = [sym[i] for i in ids]
    if mass is not None:
        mass = mass[ids]
    atoms = atoms[slots]
    return pos, sym, mass, atoms
def good(pos, sym, mass, atoms, ids):
    pos = pos[ids]
    sym = [sym[i] for i in ids]
    mass = mass[ids]
    atoms = atoms[ids]
    return pos, sym, mass, atoms
def bad_scale(cell, f):
    cell.cell = cell.cell * f
    cell.positions = cell.positions * f
def good_scale(cell, f):
    cell.cell = cell.cell * f
'''


def run_reorder(rep: core.Report, rid: str, scope: list[str], floor: int = 0):
    rep.rule(rid, "per-atom arrays reordered together (three or more statements A = A[I] / A = [A[i] for i in I] in one block) are reordered by the same index array: one array taken through another index (the inverse permutation) no longer describes the same atoms for any permutation that is not its own inverse", floor)
    t = ast.parse(_CONTROL)
    for n in ast.walk(t):
        for ch in ast.iter_child_nodes(n):
            ch._parent = n
    h, f = scan_reorder(t)
    if [core.qualname_of(x[0]) for x in f] != ["bad"] or [core.qualname_of(x[0]) for x in h] != ["good"]:
        raise AnalysisError(f"{rid}: the rule no longer classifies its own examples")
    for rel in scope:
        tree = core.parse(rel)
        held, found = scan_reorder(tree)
        for st, n_, idx in held:
            rep.instance(rid, rel, core.qualname_of(st), f"{n_} arrays reordered by '{idx}'", True, "", line=st.lineno, nontrivial=False)
        for first, odd, major, other in found:
            rep.instance(rid, rel, core.qualname_of(odd), core.norm(core.src(odd), 70), False,
                         f"the arrays of this block are reordered by '{major}', but '{core.norm(core.src(odd), 60)}' goes through '{other}': that array ends up in another order than the positions, symbols and masses it belongs to (for a reordering that is a 3-cycle the atom map points at atoms of other sublattices)", line=odd.lineno)


def run_rescale(rep: core.Report, rid: str, scope: list[str], floor: int = 0):
    rep.rule(rid, "a cell rescaled through its lattice (c.cell = c.cell * f; fractional coordinates are what the cell object stores) is not rescaled again through its Cartesian positions: c.positions = c.positions * f after that multiplies the fractional coordinates by f", floor)
    t = ast.parse(_CONTROL)
    h, f = scan_rescale(t)
    if [x[0].name for x in f] != ["bad_scale"] or sorted(x[0].name for x in h) != ["bad_scale", "good_scale"]:
        raise AnalysisError(f"{rid}: the rule no longer classifies its own examples")
    for rel in scope:
        tree = core.parse(rel)
        held, found = scan_rescale(tree)
        bad = {id(x[1]) for x in found}
        for fn, st in held:
            if id(st) not in bad:
                rep.instance(rid, rel, fn.name, core.norm(core.src(st), 70), True, "", line=st.lineno, nontrivial=False)
        for fn, st, later in found:
            rep.instance(rid, rel, fn.name, core.norm(core.src(later), 70), False,
                         f"'{core.norm(core.src(st), 50)}' already rescales every Cartesian position (the cell object keeps fractional coordinates), and '{core.norm(core.src(later), 60)}' multiplies them once more: the fractional coordinates of the converted structure are scaled by the length-unit factor (Bohr or 1/Bohr), so every atom away from the origin is misplaced", line=later.lineno)
