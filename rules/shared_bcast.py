"""Shared rule (C04 R04h, C17 R17j, C19 R19i): a per-row quantity is combined with the rows it was computed from.

`X op reduce(X, axis=1)` — a norm / sum / max taken along the last axis of a 2-D array gives one number per ROW, but
numpy aligns a 1-D operand with the LAST axis of the other operand, i.e. with the COLUMNS: row i of X is combined with
the numbers of all rows, column j with the number of row j.  The aligned spellings are `reduce(..., axis=1,
keepdims=True)`, `v[:, None]`, `v.reshape(-1, 1)`, `(X.T op v).T`; `reduce(X, axis=0)` gives one number per column and
is aligned as it stands.  The rule inlines locals assigned once, recognises the reductions np.linalg.norm / sum / max /
min / mean / prod (function and method form) and compares the reduced array with the other operand (same expression
after peeling np.array / np.asarray / astype / copy).  Instances are all combinations `X op reduce(X, axis=k)` found;
axis=1 (or -1) without re-alignment is a report.  The defect is invisible for matrices whose rows have equal
norms (cubic cells, fcc/bcc primitive cells), which is why sample files do not show it.
"""

from __future__ import annotations

import ast

from engine import core

RED_F = {"np.linalg.norm", "np.sum", "np.max", "np.min", "np.amax", "np.amin", "np.mean", "np.prod", "np.average"}
RED_M = {"sum", "max", "min", "mean", "prod"}


def _once(fn):
    d: dict = {}
    for n in ast.walk(fn):
        if isinstance(n, ast.Assign) and len(n.targets) == 1 and isinstance(n.targets[0], ast.Name):
            d.setdefault(n.targets[0].id, []).append(n.value)
        elif isinstance(n, (ast.AugAssign, ast.For, ast.comprehension)):
            for x in ast.walk(n.target):
                if isinstance(x, ast.Name):
                    d.setdefault(x.id, []).extend([None, None])
    return {k: v[0] for k, v in d.items() if len(v) == 1}


def _peel(e, env, depth=0):
    while True:
        if isinstance(e, ast.Call) and core.src(e.func) in ("np.array", "np.asarray", "np.ascontiguousarray") and e.args:
            e = e.args[0]
        elif isinstance(e, ast.Call) and isinstance(e.func, ast.Attribute) and e.func.attr in ("copy", "astype"):
            e = e.func.value
        elif isinstance(e, ast.Name) and e.id in env and depth < 4:
            e, depth = env[e.id], depth + 1
        else:
            return e


def _reduction(e):
    """(reduced array, axis, keepdims) of a reduction call, or None"""
    if not isinstance(e, ast.Call):
        return None
    f = core.src(e.func)
    arr = None
    if f in RED_F and e.args:
        arr = e.args[0]
    elif isinstance(e.func, ast.Attribute) and e.func.attr in RED_M and not (isinstance(e.func.value, ast.Name) and e.func.value.id in ("np", "numpy")):
        arr = e.func.value
    if arr is None:
        return None
    axis = [k.value for k in e.keywords if k.arg == "axis"]
    if not axis and f in RED_F and len(e.args) >= 2 and f != "np.linalg.norm":
        axis = [e.args[1]]
    if not axis:
        return None
    a = axis[0]
    val = a.value if isinstance(a, ast.Constant) else (-a.operand.value if isinstance(a, ast.UnaryOp) and isinstance(a.op, ast.USub) and isinstance(a.operand, ast.Constant) else None)
    if val not in (0, 1, -1):
        return None
    keep = any(k.arg == "keepdims" and isinstance(k.value, ast.Constant) and k.value.value is True for k in e.keywords)
    return arr, val, keep


def run(rep: core.Report, rid: str, scope: list[str], floor: int = 0):
    rep.rule(rid, "broadcast alignment: a quantity computed per row of an array (reduction along axis 1 without keepdims) is not combined with that array by plain broadcasting, which would pair it with the columns; per-column reductions (axis 0) and re-aligned spellings are fine", floor)
    for rel in scope:
        tree = core.parse(rel)
        for fn in [n for n in ast.walk(tree) if isinstance(n, ast.FunctionDef)]:
            env = _once(fn)
            for b in ast.walk(fn):
                if not (isinstance(b, ast.BinOp) and isinstance(b.op, (ast.Add, ast.Sub, ast.Mult, ast.Div))):
                    continue
                for x, v in ((b.left, b.right), (b.right, b.left)):
                    red = _reduction(_peel(v, env))
                    if red is None:
                        continue
                    arr, axis, keep = red
                    if core.src(_peel(arr, env)) != core.src(_peel(x, env)):
                        continue
                    ok = keep or axis == 0
                    rep.instance(rid, rel, core.qualname_of(fn), core.norm(core.src(b), 90), ok,
                                 f"'{core.norm(core.src(_peel(v, env)), 60)}' is one number per row of the array, but in '{core.norm(core.src(b), 60)}' numpy pairs it with the columns: row i is combined with the numbers of all rows instead of its own (use keepdims=True or [:, None]); for a lattice matrix the basis vectors are then not scaled by their own length — angles and the metric change, the volume does not — whenever the rows have different norms", line=b.lineno)
