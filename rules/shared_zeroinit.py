"""Shared rule (C13 R13i): an array that a kernel accumulates into starts from defined contents.

``np.empty`` returns whatever the allocator hands out.  That is fine for an array whose every cell is *assigned* before
it is read; it is a defect when the array goes to a routine that *adds* to its cells (``cell += term``): the result is
"garbage + term", different from run to run, and nothing raises.

The rule is decided in three steps, all from the source:

1. C summaries (clang AST of c/phonopy.c, c/dynmat.c, ...): parameter k of function f is *accumulated into* when a
   compound assignment (``+=``, ``-=``, ``*=``) stores through it -- directly, through a local pointer derived from it
   (``fc2_todo = fc2[...]``), or by handing it to a callee that does -- and no plain assignment through the same
   parameter comes first in the function (a routine that zeroes and then sums is an initialiser).
2. The glue (c/_phonopy.cpp) maps the k-th Python argument of ``phonoc.entry`` to the C parameter its ``.data()``
   pointer reaches.
3. Python summaries, to a fixed point: parameter p of a Python function is accumulated into when the function hands p
   (by name) to an accumulating position of ``phonoc.entry`` or of another phonopy function, or updates ``p[...] op=``
   itself, before assigning the whole of it.

Instances: every ``x = np.empty(...)`` / ``np.empty_like`` / ``np.ndarray(shape)`` in the scope.  Walking the
statements after it in source order, the first of

  * a whole-array assignment (``x[:] = ``, ``x[...] = ``, ``x.fill(...)``) or rebinding: held;
  * an accumulating use (passed by name to an accumulating parameter, ``x[...] op= ``, ``x op= ``): violation;
  * partial stores are skipped, except that stores inside a loop, or more than one partial store, may add up to the
    whole array, which is not decided here: held (not reported).
"""

from __future__ import annotations

import ast

from engine import cast, core, xabi
from engine.core import AnalysisError

C_FILES = ["c/phonopy.c", "c/dynmat.c", "c/derivative_dynmat.c", "c/rgrid.c", "c/tetrahedron_method.c"]
_EMPTY = {"np.empty", "numpy.empty", "np.empty_like", "numpy.empty_like", "np.ndarray"}


# ---- C side ------------------------------------------------------------------------------------------------------
def _root(e, alias, pnames):
    """the parameter whose storage the lvalue / pointer expression e refers to, or None"""
    e = cast.strip(e)
    hops = 0
    while hops < 32:
        hops += 1
        k = e.get("kind")
        ks = cast.kids(e)
        if k in ("ArraySubscriptExpr", "MemberExpr", "ParenExpr", "ImplicitCastExpr", "CStyleCastExpr") and ks:
            e = cast.strip(ks[0] if k != "CStyleCastExpr" else ks[-1])
            continue
        if k == "UnaryOperator" and e.get("opcode") in ("*", "&") and ks:
            e = cast.strip(ks[0])
            continue
        if k == "BinaryOperator" and e.get("opcode") in ("+", "-") and len(ks) == 2:
            l_, r_ = cast.strip(ks[0]), cast.strip(ks[1])
            e = l_ if ("*" in cast.qtype(l_) or "[" in cast.qtype(l_)) else r_
            continue
        break
    n = cast.ref_name(e) if e.get("kind") == "DeclRefExpr" else None
    if n in pnames:
        return n
    if n in alias:
        return alias[n]
    return None


def c_summaries():
    """{function name: {parameter index: 'acc' | 'init'}} over the C sources: how the first store through the parameter
    treats the old contents ('acc': adds to them; 'init': overwrites)"""
    fns = {}
    for rel in C_FILES:
        try:
            tu = cast.load(rel)
        except AnalysisError:
            raise
        except Exception:
            continue
        for name, fn in tu.functions.items():
            if cast.body(fn) is not None:
                fns.setdefault(name, (tu, fn))
    summ = {n: {} for n in fns}
    changed = True
    rounds = 0
    while changed and rounds < 8:
        changed = False
        rounds += 1
        for name, (tu, fn) in fns.items():
            ps = [p.get("name") for p in cast.params(fn)]
            ptr = {p.get("name") for p in cast.params(fn) if "*" in cast.qtype(p) or "[" in cast.qtype(p)}
            # local pointers derived from one parameter
            alias, bad = {}, set()
            for x in cast.walk(cast.body(fn)):
                k = x.get("kind")
                tgt = val = None
                if k == "VarDecl" and cast.kids(x) and ("*" in cast.qtype(x)):
                    tgt, val = x.get("name"), cast.kids(x)[-1]
                elif k == "BinaryOperator" and x.get("opcode") == "=":
                    l_, r_ = cast.kids(x)
                    if cast.strip(l_).get("kind") == "DeclRefExpr" and "*" in cast.qtype(cast.strip(l_)):
                        tgt, val = cast.ref_name(l_), r_
                if tgt is None or tgt in ptr:
                    continue
                v0 = cast.strip(val)
                if v0.get("kind") in ("IntegerLiteral", "GNUNullExpr", "CXXNullPtrLiteralExpr") or cast.text(v0) in ("NULL", "0", "((void *)0)"):
                    continue
                r = _root(val, alias, ptr)
                if r is None:
                    bad.add(tgt)
                elif alias.get(tgt, r) != r:
                    bad.add(tgt)
                else:
                    alias[tgt] = r
            for b in bad:
                alias.pop(b, None)
            first = {}  # param -> 'acc' | 'init' (first store in source order)
            events = []
            for x in cast.walk(cast.body(fn)):
                k = x.get("kind")
                if k == "CompoundAssignOperator" or (k == "BinaryOperator" and x.get("opcode") == "="):
                    lhs = cast.strip(cast.kids(x)[0])
                    if lhs.get("kind") == "DeclRefExpr":
                        continue  # a scalar / pointer variable itself, not a cell
                    r = _root(lhs, alias, ptr)
                    if r:
                        events.append((cast.begin_offset(x) or 0, r, "acc" if k == "CompoundAssignOperator" else "init"))
                elif k == "CallExpr":
                    cn = cast.callee_name(x)
                    if cn in summ:
                        for ix, a in enumerate(cast.call_args(x)):
                            if summ[cn].get(ix) in ("acc", "init"):
                                r = _root(a, alias, ptr)
                                if r:
                                    events.append((cast.begin_offset(x) or 0, r, summ[cn][ix]))
                    if cn in ("memset",) and cast.call_args(x):
                        r = _root(cast.call_args(x)[0], alias, ptr)
                        if r:
                            events.append((cast.begin_offset(x) or 0, r, "init"))
            for _, r, kind in sorted(events, key=lambda t: t[0]):
                first.setdefault(r, kind)
            new = {ps.index(r): kind for r, kind in first.items() if r in ps}
            if new != summ[name]:
                summ[name] = new
                changed = True
    return summ


def entry_summaries(csum):
    """{phonoc entry: set of Python argument positions that are accumulated into}"""
    glue, exported = xabi.glue_table()
    out = {}
    for ex, fnname in exported.items():
        g = glue.get(fnname)
        if g is None:
            continue
        pidx = {p.name: i for i, p in enumerate(g.params)}
        acc = set()
        for callee, texts, nodes in g.calls:
            for ix, a in enumerate(nodes):
                if csum.get(callee, {}).get(ix) != "acc":
                    continue
                names = [x.get("referencedDecl", {}).get("name") for x in cast.walk(a) if x.get("kind") == "DeclRefExpr"]
                for nm in names:
                    if nm in pidx:
                        acc.add(pidx[nm])
                    elif nm in g.origin and g.origin[nm][0] == "data" and g.origin[nm][1] in pidx:
                        acc.add(pidx[g.origin[nm][1]])
        out[ex] = acc
    return out


# ---- Python side -------------------------------------------------------------------------------------------------
def _is_full_store(t):
    """x[:] / x[...] / x[:, :] as an assignment target"""
    if not isinstance(t, ast.Subscript):
        return False
    sl = t.slice
    parts = sl.elts if isinstance(sl, ast.Tuple) else [sl]
    for p in parts:
        if isinstance(p, ast.Slice) and p.lower is None and p.upper is None and p.step is None:
            continue
        if isinstance(p, ast.Constant) and p.value is Ellipsis:
            continue
        return False
    return True


def _events(fn, name, start_line, entries, pysum):
    """ordered (line, kind, text) events on the array ``name`` after start_line: 'full' | 'acc' | 'partial' | 'partial-loop'"""
    ev = []
    loops = [n for n in ast.walk(fn) if isinstance(n, (ast.For, ast.While))]

    def in_loop(n):
        return any(lp.lineno <= n.lineno <= (lp.end_lineno or lp.lineno) and lp.lineno > start_line for lp in loops)

    for n in ast.walk(fn):
        ln = getattr(n, "lineno", 0)
        if ln <= start_line:
            continue
        if isinstance(n, ast.Assign):
            for t in n.targets:
                if isinstance(t, ast.Name) and t.id == name:
                    ev.append((ln, "full", core.src(n)))
                elif isinstance(t, ast.Subscript) and isinstance(t.value, ast.Name) and t.value.id == name:
                    ev.append((ln, "full" if _is_full_store(t) else ("partial-loop" if in_loop(n) else "partial"), core.src(n)))
        elif isinstance(n, ast.AugAssign):
            t = n.target
            if (isinstance(t, ast.Name) and t.id == name) or (isinstance(t, ast.Subscript) and isinstance(t.value, ast.Name) and t.value.id == name):
                ev.append((ln, "acc", core.src(n)))
        elif isinstance(n, ast.Call):
            f = n.func
            if isinstance(f, ast.Attribute) and isinstance(f.value, ast.Name) and f.value.id == name and f.attr == "fill":
                ev.append((ln, "full", core.src(n)))
                continue
            pos = [i for i, a in enumerate(n.args) if isinstance(a, ast.Name) and a.id == name]
            kws = [k.arg for k in n.keywords if isinstance(k.value, ast.Name) and k.value.id == name]
            if not pos and not kws:
                continue
            if isinstance(f, ast.Attribute) and core.src(f.value) == "phonoc":
                if any(p in entries.get(f.attr, set()) for p in pos):
                    ev.append((ln, "acc", core.src(n)))
                continue
            cal = f.id if isinstance(f, ast.Name) else (f.attr if isinstance(f, ast.Attribute) else None)
            if cal in pysum:
                ps, acc = pysum[cal]
                off = 1 if ps and ps[0] in ("self", "cls") and isinstance(f, ast.Attribute) else 0
                hit = any((p + off) < len(ps) and ps[p + off] in acc for p in pos) or any(k in acc for k in kws)
                if hit:
                    ev.append((ln, "acc", core.src(n)))
    return sorted(ev, key=lambda t: t[0])


def py_summaries(entries):
    """{function simple name: (parameter names, set of parameter names accumulated into)}; names defined more than
    once with different verdicts are dropped (not resolved)"""
    defs = []
    for rel in core.python_files("phonopy"):
        tree = core.parse(rel)
        for n in ast.walk(tree):
            if isinstance(n, (ast.FunctionDef, ast.AsyncFunctionDef)):
                defs.append((rel, n))
    pysum = {}
    for _ in range(6):
        new = {}
        clash = set()
        for rel, fn in defs:
            ps = [a.arg for a in fn.args.posonlyargs + fn.args.args]
            acc = set()
            for p in ps:
                if p in ("self", "cls"):
                    continue
                evs = _events(fn, p, fn.lineno - 1, entries, pysum)
                # the body starts after the signature; events on the parameter itself
                evs = [e for e in evs if e[0] > fn.lineno]
                if evs and evs[0][1] == "acc":
                    acc.add(p)
            if fn.name in new and new[fn.name][1] != acc:
                # same simple name, different verdict: keep only what all definitions agree on
                new[fn.name] = (new[fn.name][0], new[fn.name][1] & acc) if new[fn.name][0] == ps else (ps, set())
                clash.add(fn.name)
            else:
                new[fn.name] = (ps, acc)
        if new == pysum:
            break
        pysum = new
    return pysum


_CONTROL = '''
import numpy as np
def acc_helper(a, n):
    for i in range(n):
        a[i] += 1.0
def bad(n):
    x = np.empty((n, 3), dtype="double")
    x[0] = 1.0
    acc_helper(x, n)
    return x
def good(n):
    x = np.zeros((n, 3), dtype="double")
    x[0] = 1.0
    acc_helper(x, n)
    return x
def good2(n):
    x = np.empty((n, 3), dtype="double")
    x[:] = 0
    acc_helper(x, n)
    return x
def good3(n):
    x = np.empty((n, 3), dtype="double")
    for i in range(n):
        x[i] = i
    acc_helper(x, n)
    return x
'''


def _scan_tree(tree, entries, pysum):
    out = []  # (fn, assign, name, verdict, event)
    for fn in [n for n in ast.walk(tree) if isinstance(n, (ast.FunctionDef, ast.AsyncFunctionDef))]:
        for st in ast.walk(fn):
            if not (isinstance(st, ast.Assign) and len(st.targets) == 1 and isinstance(st.targets[0], ast.Name) and isinstance(st.value, ast.Call)):
                continue
            if core.src(st.value.func) not in _EMPTY:
                continue
            if core.enclosing_function(st) is not fn and getattr(st, "_parent", None) is not None:
                pass
            name = st.targets[0].id
            evs = _events(fn, name, st.end_lineno or st.lineno, entries, pysum)
            verdict, why = True, None
            partial = 0
            for ln, kind, txt in evs:
                if kind == "full":
                    break
                if kind == "partial-loop":
                    break  # may cover the whole array: not decided
                if kind == "partial":
                    partial += 1
                    if partial > 1:
                        break
                    continue
                if kind == "acc":
                    verdict, why = False, (ln, txt)
                    break
            out.append((fn, st, name, verdict, why))
    return out


def run(rep: core.Report, rid: str, scope: list[str], floor: int = 0):
    rep.rule(rid, "an array allocated without contents (np.empty / np.empty_like / np.ndarray) is assigned as a whole before it reaches code that adds to its cells -- a phonoc kernel whose C parameter is stored through with '+=' (summaries from the clang AST through the glue), a phonopy function that hands it on to one, or an in-place 'op=' -- since 'uninitialised + term' is garbage that differs from run to run", floor)
    csum = c_summaries()
    entries = entry_summaries(csum)
    if "distribute_fc2" not in entries or 0 not in entries["distribute_fc2"]:
        raise AnalysisError(f"{rid}: the accumulation summary no longer finds that phonoc.distribute_fc2 adds to its first argument (entries with accumulating arguments: {sorted(k for k, v in entries.items() if v)})")
    pysum = py_summaries(entries)
    t = ast.parse(_CONTROL)
    ctrl_sum = dict(pysum)
    ctrl_sum["acc_helper"] = (["a", "n"], {"a"})
    ctrl = {f.name: v for f, _, _, v, _ in _scan_tree(t, entries, ctrl_sum)}
    if ctrl != {"bad": False, "good2": True, "good3": True}:
        raise AnalysisError(f"{rid}: the rule no longer classifies its own examples (got {ctrl})")
    n_acc = sum(1 for v in entries.values() if v)
    rep.note(f"{rid}: {n_acc} phonoc entries accumulate into an argument: " + ", ".join(f"{k}{sorted(v)}" for k, v in sorted(entries.items()) if v))
    acc_fns = sorted(k for k, (ps, a) in pysum.items() if a)
    rep.note(f"{rid}: phonopy functions that accumulate into a parameter: " + ", ".join(f"{k}({','.join(sorted(pysum[k][1]))})" for k in acc_fns[:40]))
    for rel in scope:
        tree = core.parse(rel)
        # held instances: the call sites that hand an array to an accumulating position
        for n in ast.walk(tree):
            if not isinstance(n, ast.Call):
                continue
            f = n.func
            which = None
            if isinstance(f, ast.Attribute) and core.src(f.value) == "phonoc" and entries.get(f.attr):
                which = [core.src(n.args[i]) for i in sorted(entries[f.attr]) if i < len(n.args)]
            else:
                cal = f.id if isinstance(f, ast.Name) else (f.attr if isinstance(f, ast.Attribute) else None)
                if cal in pysum and pysum[cal][1] and cal not in ("get_cell_matrix",):
                    ps, acc = pysum[cal]
                    off = 1 if ps and ps[0] in ("self", "cls") and isinstance(f, ast.Attribute) else 0
                    which = [core.src(a) for i, a in enumerate(n.args) if i + off < len(ps) and ps[i + off] in acc]
            if which:
                rep.instance(rid, rel, core.qualname_of(n), f"{core.norm(core.src(f), 50)}(… {', '.join(which)} …) adds to its argument", True, "", line=n.lineno, nontrivial=False)
        for fn, st, name, ok, why in _scan_tree(tree, entries, pysum):
            rep.instance(rid, rel, core.qualname_of(fn), f"{name} = {core.norm(core.src(st.value), 60)}", ok,
                         "" if ok else f"'{name}' is allocated by {core.src(st.value.func)} (contents undefined) and, before the whole of it is assigned, reaches '{core.norm(why[1], 90)}' (line {why[0]}), which adds to its cells: every cell not stored explicitly before that holds 'garbage + contribution', e.g. the full force constants built from compact ones are wrong wherever the allocator did not happen to return zeroed memory",
                         line=st.lineno)
